"""Plain-Python reference model for C20 (serialisation, copying, buffer exchange).

Nothing here imports cvxopt (or numpy).  A dense matrix is modelled as (tc, (m, n), values in column-major
order); its byte image is the native little-endian packing of the values ('i' -> 8-byte signed, 'd' -> IEEE
double, 'z' -> two doubles), so -0.0 and NaN payloads are distinguished.  A sparse matrix is modelled as its
compressed-column arrays, explicit zeros included.
"""
import struct, itertools, math

ISIZE = {'i': 8, 'd': 8, 'z': 16}
FMT = {'i': 'l', 'd': 'd', 'z': 'Zd'}          # buffer format strings of the three typecodes (LP64)
NPDT = {'i': '<i8', 'd': '<f8', 'z': '<c16'}


def _bits(q):
    return struct.unpack('<d', struct.pack('<Q', q))[0]


NAN_PAYLOAD = _bits(0x7ff8000000000123)
NAN_NEG_SIG = _bits(0xfff8000000000001)      # negative quiet NaN with payload (signalling NaNs are not used)

# Palettes: all entries bitwise distinct.  VERIF_SEED only rotates them.
INT_PAL = [0, 1, -1, 2 ** 31, -2 ** 31 - 1, 2 ** 63 - 1, -2 ** 63, 7, 2 ** 53 + 1, -12345678901234, 255, -256]
DBL_PAL = [-0.0, 1.5, -2.25, 5e-324, 1.7976931348623157e308, float('inf'), NAN_PAYLOAD, 0.1, float('-inf'),
           NAN_NEG_SIG, 0.0, -7.0, float('nan')]
CPX_PAL = [complex(1.5, -2.25), complex(-0.0, -0.0), complex(0.0, -0.0), complex(-0.0, 3.0),
           complex(float('inf'), NAN_PAYLOAD), complex(1.7976931348623157e308, 5e-324), complex(2.0, 0.0),
           complex(NAN_NEG_SIG, -1.0), complex(-3.5, 0.5), complex(0.0, 1.0), complex(0.1, -0.1),
           complex(float('-inf'), float('inf')), complex(0.0, 0.0)]
PAL = {'i': INT_PAL, 'd': DBL_PAL, 'z': CPX_PAL}


def dense_values(tc, count, seed=0, shift=0):
    """`count` bitwise-distinct values of type tc (count <= 12)."""
    pal = PAL[tc]
    assert count <= len(pal) - 1
    off = (3 * seed + shift) % len(pal)
    return [pal[(off + k) % len(pal)] for k in range(count)]


def pack1(tc, v):
    if tc == 'i':
        return struct.pack('<q', v)
    if tc == 'd':
        return struct.pack('<d', v)
    v = complex(v)
    return struct.pack('<dd', v.real, v.imag)


def pack(tc, vals):
    return b''.join(pack1(tc, v) for v in vals)


def unpack(tc, raw):
    n = len(raw) // ISIZE[tc]
    if tc == 'i':
        return list(struct.unpack('<%dq' % n, raw))
    if tc == 'd':
        return list(struct.unpack('<%dd' % n, raw))
    f = struct.unpack('<%dd' % (2 * n), raw)
    return [complex(f[2 * k], f[2 * k + 1]) for k in range(n)]


def has_nan(tc, v):
    if tc == 'i':
        return False
    if tc == 'd':
        return v != v
    return v.real != v.real or v.imag != v.imag


def same_mod_nan(tc, raw_a, raw_b):
    """bitwise equality except that any NaN component matches any NaN component (pickle protocol 0 writes
    floats through repr(), which Python itself does not keep NaN sign/payload for)."""
    if len(raw_a) != len(raw_b):
        return False
    if tc == 'i':
        return raw_a == raw_b
    fa = struct.unpack('<%dd' % (len(raw_a) // 8), raw_a)
    fb = struct.unpack('<%dd' % (len(raw_b) // 8), raw_b)
    for k, (x, y) in enumerate(zip(fa, fb)):
        if x != x and y != y:
            continue
        if raw_a[8 * k:8 * k + 8] != raw_b[8 * k:8 * k + 8]:
            return False
    return True


def z_lossy(v):
    """complex values that `real + I*imag` (C99, used when a Python complex is converted) does not reproduce:
    a non-finite imaginary part turns the real part into NaN; a negative-zero real part is lost when the
    imaginary part has a positive sign."""
    v = complex(v)
    if v.imag != v.imag or v.imag in (float('inf'), float('-inf')):
        return True
    if v.real == 0.0 and math.copysign(1.0, v.real) < 0 and math.copysign(1.0, v.imag) > 0:
        return True
    return False


def f_strides(tc, size):
    return (ISIZE[tc], ISIZE[tc] * size[0])


def dense_image(tc, size, vals):
    return ('M', tc, tuple(size), pack(tc, vals))


def convert(v, src, dst):
    """documented upward conversions i -> d -> z."""
    if dst == 'i':
        return int(v)
    if dst == 'd':
        return float(v)
    return complex(v)


TCRANK = {'i': 0, 'd': 1, 'z': 2}

# ------------------------------------------------------------------ sparse patterns
SP_ZERO = {'d': [0.0, -0.0], 'z': [complex(0.0, 0.0), complex(-0.0, 0.0), complex(0.0, -0.0)]}
SP_NZ = {'d': [1.5, -2.25, 5e-324, 1e308, float('inf'), 0.1, -7.0, 3.0, -0.5],
         'z': [complex(1.5, -2.25), complex(0.0, 1.0), complex(-3.5, 0.5), complex(2.0, 0.0), complex(0.1, -0.1),
               complex(float('inf'), -1.0), complex(-0.0, 3.0), complex(7.0, 7.0), complex(1e308, 5e-324)]}


def sparse_patterns(m, n):
    """all assignments cell -> {0 absent, 1 explicit zero, 2 nonzero}, cells in column-major order."""
    return itertools.product((0, 1, 2), repeat=m * n)


def sparse_model(tc, m, n, pat, seed=0):
    """CCS model of the pattern: dict(I, J, V, colptr) with entries in column-major (CCS) order."""
    I, J, V = [], [], []
    colptr = [0]
    for j in range(n):
        for i in range(m):
            s = pat[j * m + i]
            if s == 0:
                continue
            k = j * m + i
            if s == 1:
                z = SP_ZERO[tc]
                v = z[(k + seed) % len(z)]
            else:
                nz = SP_NZ[tc]
                v = nz[(k + 2 * seed) % len(nz)]
            I.append(i); J.append(j); V.append(v)
        colptr.append(len(I))
    return {'tc': tc, 'size': (m, n), 'I': I, 'J': J, 'V': V, 'colptr': colptr}


def sparse_image(mod):
    return ('S', mod['tc'], tuple(mod['size']), pack('i', mod['colptr']), pack('i', mod['I']),
            pack(mod['tc'], mod['V']), tuple(mod['I']), tuple(mod['J']))


def sparse_dense_values(mod):
    m, n = mod['size']
    zero = 0.0 if mod['tc'] == 'd' else complex(0.0, 0.0)
    out = [zero] * (m * n)
    for i, j, v in zip(mod['I'], mod['J'], mod['V']):
        out[j * m + i] = v
    return out


# ------------------------------------------------------------------ layouts of source buffers
def nested(vals, r, c):
    """row-major nested list r x c from a flat row-major list."""
    return [[vals[i * c + j] for j in range(c)] for i in range(r)]


def colmajor(rows, r, c):
    return [rows[i][j] for j in range(c) for i in range(r)]


def t_transpose(rows):
    if not rows:
        return []
    return [list(col) for col in zip(*rows)]


# ------------------------------------------------------------------ in-place arithmetic model (hist)
def inplace_apply(tc, vals, op):
    """Documented behaviour of an in-place operator on a dense matrix of typecode tc.

    returns ('ok', new values) or ('raise', reason).  Per matrices.rst, in-place operations are defined only
    if they do not change the type of the matrix; otherwise they are refused."""
    if op == '+=1':
        return 'ok', [v + 1 for v in vals]
    if op == '+=B':           # B = all-ones matrix of the same size and typecode
        return 'ok', [v + 1 for v in vals]
    if op == '*=2':
        return 'ok', [v * 2 for v in vals]
    if op == '/=2':
        if tc == 'i':
            return 'raise', 'true division of an integer matrix gives a real matrix'
        return 'ok', [v / 2 for v in vals]
    if op == '+=1.0':
        if tc == 'i':
            return 'raise', 'integer matrix + float is real'
        return 'ok', [v + 1.0 for v in vals]
    if op == '%=2':
        if tc == 'z':
            return 'raise', 'complex remainder'
        if tc == 'i':
            return 'ok', [v % 2 for v in vals]          # values are kept non-negative
        return 'ok', [v - math.floor(v / 2.0) * 2.0 for v in vals]
    if op == '%=2.0':
        if tc == 'z':
            return 'raise', 'complex remainder'
        if tc == 'i':
            return 'raise', 'integer matrix % float is real'
        return 'ok', [v - math.floor(v / 2.0) * 2.0 for v in vals]
    if op == '%=0':
        return 'raise', 'division by zero' if tc != 'z' else 'complex remainder'
    raise AssertionError(op)


INPLACE_OPS = ['+=1', '*=2', '%=2', '%=2.0', '/=2', '+=B', '%=0', '+=1.0']

HIST_INIT = {'i': [1, 2, 3, 4], 'd': [1.0, 2.5, 3.0, 4.0], 'z': [complex(1, 2), complex(2, 1), complex(3, 4), complex(4, 3)]}
HIST_WVAL = {'i': [11, 12, 13], 'd': [11.5, 12.0, 13.25], 'z': [complex(11, 1), complex(12, 2), complex(13, 3)]}
HIST_SIZES = [(4, 1), (1, 4), (2, 2)]


class HModel(object):
    """Reference state of the hist part: one dense matrix with 4 elements and up to two live views."""

    def __init__(self, tc, nview=2):
        self.tc = tc
        self.vals = list(HIST_INIT[tc])
        self.size = (2, 2)
        self.alive = True
        self.views = [None] * nview

    def enabled(self, alphabet):
        out = []
        for a in alphabet:
            k = a[0]
            if k in ('mv', 'np'):
                if self.alive and None in self.views:
                    out.append(a)
            elif k == 'rel' or k == 'wview':
                if a[1] < len(self.views) and self.views[a[1]] is not None:
                    out.append(a)
            elif k in ('wmat', 'iop', 'size', 'del'):
                if self.alive:
                    out.append(a)
            elif k == 'gc':
                out.append(a)
        return out

    def apply(self, a):
        """returns 'ok' or 'raise'."""
        k = a[0]
        if k in ('mv', 'np'):
            slot = self.views.index(None)
            self.views[slot] = {'kind': k, 'shape': tuple(self.size), 'strides': f_strides(self.tc, self.size),
                                'format': FMT[self.tc], 'itemsize': ISIZE[self.tc]}
            return 'ok'
        if k == 'rel':
            self.views[a[1]] = None
            return 'ok'
        if k == 'wmat':            # A[pos] = value  (linear, column-major index)
            self.vals[a[1]] = HIST_WVAL[self.tc][a[2]]
            return 'ok'
        if k == 'wview':           # element at physical position a[2] written through view a[1]
            self.vals[a[2]] = HIST_WVAL[self.tc][a[3]]
            return 'ok'
        if k == 'iop':
            st, res = inplace_apply(self.tc, self.vals, a[1])
            if st == 'ok':
                self.vals = res
            return st
        if k == 'size':
            self.size = tuple(a[1])
            return 'ok'
        if k == 'del':
            self.alive = False
            return 'ok'
        if k == 'gc':
            return 'ok'
        raise AssertionError(a)

    def key(self):
        return (self.tc, self.alive, self.size if self.alive else None, pack(self.tc, self.vals),
                tuple(None if v is None else (v['kind'], v['shape'], v['strides'], v['format']) for v in self.views))


def view_index(shape, pos):
    """index tuple, in a view of the given (column-major) shape, of the element at physical position pos."""
    return (pos % shape[0], pos // shape[0]) if shape[0] else (0, 0)
