"""Reference model of convex piecewise-linear optimization problems (property C12).

Plain Python, exact arithmetic (fractions.Fraction), no cvxopt.

Variables are fixed: x (length 1), y (length 2), z (length 1); a *point* is a list of four numbers
[x, y0, y1, z].

Expression trees (JSON-able lists); every expression has a length (1 or 2), length 1 broadcasts:

  ['v', name]            the variable                     ['i', name, k]       component k of the variable
  ['c', a]               the number a                     ['cm', [a0, a1]]     a constant column vector
  ['*', a, e]            a * e   (number a)               ['m*', rows, e]      matrix(rows) * e
  ['dot', [a..], e]      a' e    (scalar)                 ['sum', e]           sum of the components (scalar)
  ['sm*', rows, e]       like 'm*' (the coefficient is written as a sparse matrix on the cvxopt side)
  ['+', e1, e2, ...]     ['-', e1, e2]     ['neg', e]
  ['max', e1, e2, ...]   componentwise maximum of >= 2 expressions
  ['vmax', e]            maximum over the components of e (scalar)
  ['abs', e]             componentwise absolute value (e affine)

A problem is {'obj': e, 'cons': [[lhs, rel, rhs], ...]} with rel in '<=', '>=', '=='.  Following
modeling.rst the constraint function of `f1 <= f2`, `f2 >= f1` and `f1 == f2` is f1 - f2, i.e.
  lhs <= rhs  ->  lhs - rhs <= 0        lhs >= rhs  ->  rhs - lhs <= 0        lhs == rhs  ->  lhs - rhs == 0.

The epigraph LP is formed here in the textbook way - one new variable per component of every max/abs node,
bottom-up through the tree - which is *not* how cvxopt flattens functions into sums of maxima of affine
functions; the two constructions only share the mathematics.
"""
from fractions import Fraction as Fr

COLS = {'x': [0], 'y': [1, 2], 'z': [3]}
NV = 4
K = 'k'          # key of the constant term in a row


def _F(v):
    return v if isinstance(v, Fr) else Fr(v)


# ------------------------------------------------------------------ structure
def desugar(e):
    """['nsmin', k, a, b] = k * sum(min(a, b)) with k < 0 and a, b affine: the convex function |k| * sum(max(-a, -b))."""
    return ['*', -e[1], ['sum', ['max', ['neg', e[2]], ['neg', e[3]]]]]


def length(e):
    t = e[0]
    if t == 'nsmin':
        return 1
    if t == '*c':           # ['*c', e, [c0, c1, ...]]: scalar affine function e times a constant column
        return len(e[2])
    if t == 'v':
        return len(COLS[e[1]])
    if t in ('i', 'c', 'dot', 'sum', 'vmax'):
        return 1
    if t == 'cm':
        return len(e[1])
    if t in ('*',):
        return length(e[2])
    if t in ('m*', 'sm*'):
        return len(e[1])
    if t in ('+', 'max'):
        return max(length(a) for a in e[1:])
    if t == '-':
        return max(length(e[1]), length(e[2]))
    if t in ('neg', 'abs'):
        return length(e[1])
    raise ValueError('unknown node %r' % (t,))


def occurs(e):
    """names of the variables that occur in e (an occurrence multiplied by the number 0 does not count)."""
    t = e[0]
    if t in ('v', 'i'):
        return {e[1]}
    if t in ('c', 'cm'):
        return set()
    if t == 'nsmin':
        return occurs(e[2]) | occurs(e[3])
    if t == '*c':
        return occurs(e[1])
    if t == '*':
        return set() if e[1] == 0 else occurs(e[2])
    if t in ('m*', 'sm*', 'dot'):
        return occurs(e[2])
    out = set()
    for a in e[1:]:
        out |= occurs(a)
    return out


def is_affine(e):
    t = e[0]
    if t in ('v', 'i', 'c', 'cm'):
        return True
    if t in ('max', 'vmax', 'abs', 'nsmin'):
        return False
    if t == '*c':
        return is_affine(e[1])
    if t in ('*', 'm*', 'sm*', 'dot'):
        return is_affine(e[2])
    return all(is_affine(a) for a in e[1:])


def cfun(con):
    """constraint function of [lhs, rel, rhs] as an expression."""
    lhs, rel, rhs = con
    if rel == '>=':
        return ['-', rhs, lhs]
    return ['-', lhs, rhs]


def ctype(con):
    return '=' if con[1] == '==' else '<'


def problem_vars(prob):
    s = occurs(prob['obj'])
    for con in prob['cons']:
        s |= occurs(con[0]) | occurs(con[2])
    return [n for n in ('x', 'y', 'z') if n in s]


# ------------------------------------------------------------------ exact evaluation
def _bc(a, n):
    if len(a) == n:
        return a
    if len(a) == 1:
        return a * n
    raise ValueError('length mismatch %d vs %d' % (len(a), n))


def ev(e, pt, homog=False):
    """exact value (list of Fractions) of e at the point pt = [x, y0, y1, z].
    homog=True evaluates the recession function (all constants replaced by 0)."""
    t = e[0]
    if t == 'nsmin':
        return ev(desugar(e), pt, homog)
    if t == '*c':
        a = ev(e[1], pt, homog)
        if len(a) != 1:
            raise ValueError('*c needs a scalar function')
        return [a[0] * _F(c) for c in e[2]]
    if t == 'v':
        return [_F(pt[j]) for j in COLS[e[1]]]
    if t == 'i':
        return [_F(pt[COLS[e[1]][e[2]]])]
    if t == 'c':
        return [Fr(0) if homog else _F(e[1])]
    if t == 'cm':
        return [Fr(0) if homog else _F(v) for v in e[1]]
    if t == '*':
        a = _F(e[1])
        return [a * v for v in ev(e[2], pt, homog)]
    if t in ('m*', 'sm*'):
        a = ev(e[2], pt, homog)
        out = []
        for r in e[1]:
            if len(r) != len(a):
                raise ValueError('matrix product dimension mismatch')
            out.append(sum((_F(r[j]) * a[j] for j in range(len(a))), Fr(0)))
        return out
    if t == 'dot':
        a = ev(e[2], pt, homog)
        if len(e[1]) != len(a):
            raise ValueError('dot dimension mismatch')
        return [sum((_F(e[1][j]) * a[j] for j in range(len(a))), Fr(0))]
    if t == 'sum':
        return [sum(ev(e[1], pt, homog), Fr(0))]
    if t == 'neg':
        return [-v for v in ev(e[1], pt, homog)]
    if t == 'abs':
        return [abs(v) for v in ev(e[1], pt, homog)]
    if t == 'vmax':
        return [max(ev(e[1], pt, homog))]
    n = length(e)
    parts = [_bc(ev(a, pt, homog), n) for a in e[1:]]
    if t == '+':
        return [sum((p[k] for p in parts), Fr(0)) for k in range(n)]
    if t == '-':
        return [parts[0][k] - parts[1][k] for k in range(n)]
    if t == 'max':
        return [max(p[k] for p in parts) for k in range(n)]
    raise ValueError('unknown node %r' % (t,))


# ------------------------------------------------------------------ epigraph linearisation
class Ctx(object):
    """columns 0..3 are x, y0, y1, z; epigraph variables are numbered from 4 on.
    rows are dicts {column: coefficient, K: constant}; `cons` collects rows meaning row <= 0."""

    def __init__(self):
        self.next = NV
        self.cons = []

    def new(self, n):
        cols = list(range(self.next, self.next + n))
        self.next += n
        return cols


def _radd(a, b, sb=1):
    out = dict(a)
    for k, v in b.items():
        nv = out.get(k, Fr(0)) + sb * v
        if nv == 0 and k != K:
            out.pop(k, None)
        else:
            out[k] = nv
    return out


def _rscale(a, s):
    return dict((k, s * v) for k, v in a.items()) if s != 0 else {}


def lin(e, ctx):
    """rows (affine in the original and the epigraph variables) whose value, minimised over the epigraph
    variables subject to ctx.cons, equals e.  Only valid where e enters with a nonnegative weight."""
    t = e[0]
    if t == 'nsmin':
        return lin(desugar(e), ctx)
    if t == '*c':
        if not is_affine(e[1]):
            raise ValueError('column multiple of a non-affine expression')
        a = lin(e[1], ctx)
        if len(a) != 1:
            raise ValueError('*c needs a scalar function')
        return [_rscale(a[0], _F(c)) for c in e[2]]
    if t == 'v':
        return [{j: Fr(1)} for j in COLS[e[1]]]
    if t == 'i':
        return [{COLS[e[1]][e[2]]: Fr(1)}]
    if t == 'c':
        return [{K: _F(e[1])}]
    if t == 'cm':
        return [{K: _F(v)} for v in e[1]]
    if t == '*':
        a = _F(e[1])
        if a == 0:
            return [{} for _ in range(length(e[2]))]
        if a < 0 and not is_affine(e[2]):
            raise ValueError('negative multiple of a non-affine expression is not convex')
        return [_rscale(r, a) for r in lin(e[2], ctx)]
    if t in ('m*', 'sm*', 'dot'):
        if not is_affine(e[2]):
            raise ValueError('matrix multiple of a non-affine expression')
        a = lin(e[2], ctx)
        rows = [e[1]] if t == 'dot' else e[1]
        out = []
        for r in rows:
            if len(r) != len(a):
                raise ValueError('dimension mismatch')
            acc = {}
            for j in range(len(a)):
                acc = _radd(acc, _rscale(a[j], _F(r[j])))
            out.append(acc)
        return out
    if t == 'sum':
        acc = {}
        for r in lin(e[1], ctx):
            acc = _radd(acc, r)
        return [acc]
    if t == 'neg':
        if not is_affine(e[1]):
            raise ValueError('negation of a non-affine expression is not convex')
        return [_rscale(r, Fr(-1)) for r in lin(e[1], ctx)]
    if t == 'abs':
        if not is_affine(e[1]):
            raise ValueError('abs of a non-affine expression')
        a = lin(e[1], ctx)
        ts = ctx.new(len(a))
        for r, tc in zip(a, ts):
            ctx.cons.append(_radd(r, {tc: Fr(1)}, -1))                       #  a - t <= 0
            ctx.cons.append(_radd(_rscale(r, Fr(-1)), {tc: Fr(1)}, -1))      # -a - t <= 0
        return [{tc: Fr(1)} for tc in ts]
    if t == 'vmax':
        a = lin(e[1], ctx)
        tc = ctx.new(1)[0]
        for r in a:
            ctx.cons.append(_radd(r, {tc: Fr(1)}, -1))
        return [{tc: Fr(1)}]
    n = length(e)
    if t == '-' and not is_affine(e[2]):
        raise ValueError('subtraction of a non-affine expression is not convex')
    parts = [_bc(lin(a, ctx), n) for a in e[1:]]
    if t == '+':
        out = []
        for k in range(n):
            acc = {}
            for p in parts:
                acc = _radd(acc, p[k])
            out.append(acc)
        return out
    if t == '-':
        return [_radd(parts[0][k], parts[1][k], -1) for k in range(n)]
    if t == 'max':
        ts = ctx.new(n)
        for p in parts:
            for k in range(n):
                ctx.cons.append(_radd(p[k], {ts[k]: Fr(1)}, -1))
        return [{tc: Fr(1)} for tc in ts]
    raise ValueError('unknown node %r' % (t,))


def _assemble(cost, ineq_rows, eq_rows, ctx, names):
    """dense lists (c, d, G, h, A, b, colmap); columns = variables in `names` then the epigraph variables."""
    colmap = {}
    for n in names:
        for j in COLS[n]:
            colmap[j] = len(colmap)
    for j in range(NV, ctx.next):
        colmap[j] = len(colmap)
    ncol = len(colmap)

    def dense(row):
        out = [Fr(0)] * ncol
        for k, v in row.items():
            if k == K:
                continue
            if k not in colmap:
                if v != 0:
                    raise ValueError('coefficient on a variable that does not occur')
                continue
            out[colmap[k]] = v
        return out
    c = dense(cost)
    d = cost.get(K, Fr(0))
    G = [dense(r) for r in ineq_rows]
    h = [-r.get(K, Fr(0)) for r in ineq_rows]
    A = [dense(r) for r in eq_rows]
    b = [-r.get(K, Fr(0)) for r in eq_rows]
    return c, d, G, h, A, b, colmap


def epigraph_lp(prob):
    """The whole problem as  minimize c'u + d  s.t.  G u <= h, A u = b  (u = occurring variables, then
    epigraph variables).  Returns dict with c, d, G, h, A, b, names, colmap, nrows (per constraint)."""
    ctx = Ctx()
    names = problem_vars(prob)
    cost = lin(prob['obj'], ctx)
    if len(cost) != 1:
        raise ValueError('objective must have length 1')
    ineq, eq = [], []
    for con in prob['cons']:
        rows = lin(cfun(con), ctx)
        (eq if ctype(con) == '=' else ineq).extend(rows)
    c, d, G, h, A, b, colmap = _assemble(cost[0], ineq + ctx.cons, eq, ctx, names)
    return {'c': c, 'd': d, 'G': G, 'h': h, 'A': A, 'b': b, 'names': names, 'colmap': colmap}


def lagrangian_lp(prob, mult, centre, radius, with_objective=True):
    """LP whose optimal value is   inf { [f0(v)] + sum_i mult_i' f_i(v) :  |v - centre|_inf <= radius }
    over the occurring variables (f_i: constraint functions; mult_i: list of numbers per constraint, those of
    inequalities must be >= 0).  Terms with a zero multiplier are left out."""
    ctx = Ctx()
    names = problem_vars(prob)
    cost = {}
    if with_objective:
        cost = lin(prob['obj'], ctx)[0]
    for con, m in zip(prob['cons'], mult):
        f = cfun(con)
        n = length(f)
        if len(m) != n:
            raise ValueError('multiplier length')
        if all(v == 0 for v in m):
            continue
        if ctype(con) == '<' and any(v < 0 for v in m):
            raise ValueError('negative inequality multiplier')
        rows = lin(f, ctx)
        for r, v in zip(rows, m):
            if v != 0:
                cost = _radd(cost, _rscale(r, _F(v)))
    box = []
    for n in names:
        for j in COLS[n]:
            box.append({j: Fr(1), K: -(_F(centre[j]) + radius)})      #  v_j - (c_j + R) <= 0
            box.append({j: Fr(-1), K: _F(centre[j]) - radius})        # -v_j + (c_j - R) <= 0
    # epigraph variables with zero cost and only lower bounds are harmless (value independent of them)
    c, d, G, h, A, b, colmap = _assemble(cost, ctx.cons + box, [], ctx, names)
    return {'c': c, 'd': d, 'G': G, 'h': h, 'A': A, 'b': b, 'names': names, 'colmap': colmap}


def point_of(sol, lp):
    """[x, y0, y1, z] from an LP solution vector (variables that do not occur: 0)."""
    pt = [Fr(0)] * NV
    for j in range(NV):
        if j in lp['colmap']:
            pt[j] = sol[lp['colmap'][j]]
    return pt


def selftest():
    """hand-computed problems: value of the epigraph LP, evaluation at its solution, dual function at its multipliers."""
    from . import lpexact
    X, Y = ['v', 'x'], ['v', 'y']
    probs = [
        # minimize |x - 1| + y0 + y1  s.t.  |y| <= 2 (componentwise), x + y0 + y1 == 0      -> objective |x-1| - x, any x in [1, 4]: value -1
        ({'obj': ['+', ['abs', ['-', X, ['c', 1]]], ['sum', Y]],
          'cons': [[['abs', Y], '<=', ['c', 2]], [['+', X, ['sum', Y]], '==', ['c', 0]]]}, Fr(-1)),
        # minimize max(x, y0 - y1, 0) s.t. sum(abs(y)) <= 1, x >= y0 + 2   -> y0 = -1, x = 1: value 1
        ({'obj': ['max', X, ['-', ['i', 'y', 0], ['i', 'y', 1]], ['c', 0]],
          'cons': [[['sum', ['abs', Y]], '<=', ['c', 1]], [X, '>=', ['+', ['i', 'y', 0], ['c', 2]]]]}, Fr(1)),
        # minimize max over components of (y + (1, 0)) s.t. y >= -1   -> y = (-1, -1): value 0
        ({'obj': ['vmax', ['+', Y, ['cm', [1, 0]]]], 'cons': [[Y, '>=', ['c', -1]]]}, Fr(0)),
    ]
    for prob, want in probs:
        L = epigraph_lp(prob)
        r = lpexact.solve(L['c'], L['G'], L['h'], L['A'], L['b'])
        assert r['status'] == 'optimal' and r['value'] + L['d'] == want, (prob, r)
        pt = point_of(r['x'], L)
        assert ev(prob['obj'], pt)[0] == want
        zi, yi, lam = iter(r['z']), iter(r['y']), []
        for con in prob['cons']:
            m = length(cfun(con))
            lam.append([next(zi) for _ in range(m)] if ctype(con) == '<' else [next(yi) for _ in range(m)])
        LL = lagrangian_lp(prob, lam, [0, 0, 0, 0], Fr(5))
        g = lpexact.solve(LL['c'], LL['G'], LL['h'], LL['A'], LL['b'])
        assert g['status'] == 'optimal' and g['value'] + LL['d'] == want, (prob, g)
    return len(probs)


if __name__ == '__main__':
    print('pwl selftest ok, %d problems' % selftest())
