"""Exact LP solver over fractions.Fraction (two-phase simplex, Bland's rule).

    minimize   c'x   subject to   G x <= h,  A x = b        (x free)

G, A are lists of rows.  Everything is converted with Fraction(), so floats are
taken at their exact binary value.  Sizes are meant to be tiny (n <= 6, rows <= 10).
"""
from fractions import Fraction as Fr


def _F(v):
    return v if isinstance(v, Fr) else Fr(v)


def rank(M):
    M = [[_F(v) for v in r] for r in M]
    if not M or not M[0]:
        return 0
    r = 0
    rows, cols = len(M), len(M[0])
    for c in range(cols):
        p = None
        for i in range(r, rows):
            if M[i][c] != 0:
                p = i
                break
        if p is None:
            continue
        M[r], M[p] = M[p], M[r]
        pv = M[r][c]
        for i in range(r + 1, rows):
            if M[i][c] != 0:
                f = M[i][c] / pv
                M[i] = [a - f * b for a, b in zip(M[i], M[r])]
        r += 1
        if r == rows:
            break
    return r


def solve_square(B, rhs):
    """Exact solution of B u = rhs (B square, list of rows) or None if singular."""
    n = len(B)
    M = [[_F(v) for v in B[i]] + [_F(rhs[i])] for i in range(n)]
    for c in range(n):
        p = None
        for i in range(c, n):
            if M[i][c] != 0:
                p = i
                break
        if p is None:
            return None
        M[c], M[p] = M[p], M[c]
        pv = M[c][c]
        M[c] = [t / pv for t in M[c]]
        for i in range(n):
            if i != c and M[i][c] != 0:
                f = M[i][c]
                M[i] = [a - f * b for a, b in zip(M[i], M[c])]
    return [M[i][n] for i in range(n)]


def _simplex(T, basis, ncols, allowed):
    """Tableau T: rows 0..m-1 constraints [coeffs | rhs], row m = objective (reduced costs | -value).
    Minimises.  Bland's rule.  `allowed` = set of columns that may enter.  Returns 'optimal'/'unbounded'."""
    m = len(T) - 1
    while True:
        enter = None
        for j in range(ncols):
            if j in allowed and T[m][j] < 0:
                enter = j
                break
        if enter is None:
            return 'optimal'
        best, leave = None, None
        for i in range(m):
            a = T[i][enter]
            if a > 0:
                ratio = T[i][ncols] / a
                if best is None or ratio < best or (ratio == best and basis[i] < basis[leave]):
                    best, leave = ratio, i
        if leave is None:
            return 'unbounded'
        pv = T[leave][enter]
        T[leave] = [t / pv for t in T[leave]]
        for i in range(m + 1):
            if i != leave and T[i][enter] != 0:
                f = T[i][enter]
                T[i] = [a - f * b for a, b in zip(T[i], T[leave])]
        basis[leave] = enter


def solve(c, G, h, A=None, b=None):
    """Returns dict(status='optimal'|'infeasible'|'unbounded', value, x, z, y).
    z >= 0 are multipliers of G x <= h, y of A x = b, with  c + G'z + A'y = 0  and  value = -h'z - b'y."""
    n = len(c)
    G = [[_F(v) for v in r] for r in (G or [])]
    h = [_F(v) for v in (h or [])]
    A = [[_F(v) for v in r] for r in (A or [])]
    b = [_F(v) for v in (b or [])]
    c = [_F(v) for v in c]
    mi, me = len(G), len(A)
    m = mi + me
    # columns: x+ (n), x- (n), slacks (mi), artificials (m)
    ncols = 2 * n + mi + m
    rows = []
    sign = []
    for i in range(mi):
        r = G[i] + [-v for v in G[i]] + [Fr(int(k == i)) for k in range(mi)]
        rhs = h[i]
        s = 1
        if rhs < 0:
            r = [-v for v in r]; rhs = -rhs; s = -1
        rows.append((r, rhs)); sign.append(s)
    for i in range(me):
        r = A[i] + [-v for v in A[i]] + [Fr(0)] * mi
        rhs = b[i]
        s = 1
        if rhs < 0:
            r = [-v for v in r]; rhs = -rhs; s = -1
        rows.append((r, rhs)); sign.append(s)
    T = []
    for i, (r, rhs) in enumerate(rows):
        T.append(r + [Fr(int(k == i)) for k in range(m)] + [rhs])
    basis = [2 * n + mi + i for i in range(m)]
    # phase 1 objective: sum of artificials
    obj = [Fr(0)] * (ncols + 1)
    for j in range(2 * n + mi, ncols):
        obj[j] = Fr(1)
    for i in range(m):
        obj = [a - b_ for a, b_ in zip(obj, T[i])]
    T.append(obj)
    _simplex(T, basis, ncols, set(range(ncols)))
    if -T[m][ncols] > 0:
        return {'status': 'infeasible', 'value': None, 'x': None, 'z': None, 'y': None}
    # drive artificials out of the basis where possible
    nart0 = 2 * n + mi
    for i in range(m):
        if basis[i] >= nart0:
            piv = None
            for j in range(nart0):
                if T[i][j] != 0:
                    piv = j
                    break
            if piv is not None:
                pv = T[i][piv]
                T[i] = [t / pv for t in T[i]]
                for k in range(m + 1):
                    if k != i and T[k][piv] != 0:
                        f = T[k][piv]
                        T[k] = [a - f * b_ for a, b_ in zip(T[k], T[i])]
                basis[i] = piv
    # phase 2
    cost = c + [-v for v in c] + [Fr(0)] * mi + [Fr(0)] * m
    obj = cost + [Fr(0)]
    for i in range(m):
        if cost[basis[i]] != 0:
            f = cost[basis[i]]
            obj = [a - f * b_ for a, b_ in zip(obj, T[i])]
    T[m] = obj
    st = _simplex(T, basis, ncols, set(range(nart0)))
    if st == 'unbounded':
        return {'status': 'unbounded', 'value': None, 'x': None, 'z': None, 'y': None}
    xs = [Fr(0)] * ncols
    for i in range(m):
        xs[basis[i]] = T[i][ncols]
    x = [xs[j] - xs[n + j] for j in range(n)]
    value = sum(ci * xi for ci, xi in zip(c, x))
    # duals: reduced cost of artificial column i is  0 - pi_i  (row i possibly sign-flipped)
    pi = [-T[m][nart0 + i] * sign[i] for i in range(m)]
    # Lagrangian: c - [G;A]' pi = 0  =>  z = -pi_ineq, y = -pi_eq
    z = [-pi[i] for i in range(mi)]
    y = [-pi[mi + i] for i in range(me)]
    return {'status': 'optimal', 'value': value, 'x': x, 'z': z, 'y': y}


def check_dual(c, G, h, A, b, res):
    """Sanity identity of an 'optimal' answer (used by the self-test)."""
    n = len(c)
    z, y = res['z'], res['y']
    ok = all(t >= 0 for t in z)
    for j in range(n):
        ok = ok and (_F(c[j]) + sum(_F(G[i][j]) * z[i] for i in range(len(z))) +
                     sum(_F(A[i][j]) * y[i] for i in range(len(y))) == 0)
    dual = -sum(_F(h[i]) * z[i] for i in range(len(z))) - sum(_F(b[i]) * y[i] for i in range(len(y)))
    return ok and dual == res['value']


def classify(c, G, h, A=None, b=None):
    """Exact facts about the LP: rank assumptions, strict feasibility, strict certificates, optimal value."""
    A = A or []
    b = b or []
    G = G or []
    h = h or []
    n = len(c)
    mi, me = len(G), len(A)
    out = {}
    out['rank_ok'] = (rank(A) == me if me else True) and (rank(list(G) + list(A)) == n if (mi + me) else n == 0)
    r = solve(c, G, h, A, b)
    out['status'] = r['status']
    out['value'] = r['value']
    out['x'] = r['x']
    out['z'] = r['z']
    out['y'] = r['y']
    # strict primal feasibility: max t : Gx + t <= h, Ax = b, t <= 1
    rp = solve([0] * n + [-1], [list(G[i]) + [1] for i in range(mi)] + [[0] * n + [1]], list(h) + [1],
               [list(A[i]) + [0] for i in range(me)], list(b))
    out['strict_primal'] = rp['status'] == 'optimal' and -rp['value'] > 0
    # strict dual feasibility: max t : G'z + A'y + c = 0, z >= t, t <= 1    (variables z, y, t)
    nv = mi + me + 1
    Aeq = [[_F(G[i][j]) for i in range(mi)] + [_F(A[i][j]) for i in range(me)] + [Fr(0)] for j in range(n)]
    beq = [-_F(c[j]) for j in range(n)]
    Gin = [[Fr(-1) if k == i else Fr(0) for k in range(mi)] + [Fr(0)] * me + [Fr(1)] for i in range(mi)]
    Gin.append([Fr(0)] * (mi + me) + [Fr(1)])
    rd = solve([0] * (mi + me) + [-1], Gin, [0] * mi + [1], Aeq, beq)
    out['strict_dual'] = rd['status'] == 'optimal' and -rd['value'] > 0
    # strict certificate of primal infeasibility: z > 0, G'z + A'y = 0, h'z + b'y = -1 (scaled), maximise min z
    Aeq = [[_F(G[i][j]) for i in range(mi)] + [_F(A[i][j]) for i in range(me)] + [Fr(0)] for j in range(n)]
    Aeq.append([_F(v) for v in h] + [_F(v) for v in b] + [Fr(0)])
    rc = solve([0] * (mi + me) + [-1], Gin, [0] * mi + [1], Aeq, [0] * n + [-1])
    out['strict_pinf_cert'] = rc['status'] == 'optimal' and -rc['value'] > 0
    # strictly improving ray: Gx + s = 0, s > 0, Ax = 0, c'x = -1: maximise t: Gx + t <= 0
    rr = solve([0] * n + [-1], [list(G[i]) + [1] for i in range(mi)] + [[0] * n + [1]], [0] * mi + [1],
               [list(A[i]) + [0] for i in range(me)] + [list(c) + [0]], [0] * me + [-1])
    out['strict_dinf_ray'] = rr['status'] == 'optimal' and -rr['value'] > 0
    return out


def selftest():
    import itertools
    cnt = 0
    for cc in itertools.product([-1, 0, 1], repeat=2):
        for g in itertools.product([-1, 0, 1], repeat=4):
            for hh in itertools.product([-1, 0, 1], repeat=2):
                G = [list(g[:2]), list(g[2:])]
                r = solve(list(cc), G, list(hh))
                if r['status'] == 'optimal':
                    assert check_dual(cc, G, hh, [], [], r), (cc, G, hh, r)
                    assert all(sum(Fr(G[i][j]) * r['x'][j] for j in range(2)) <= hh[i] for i in range(2))
                    cnt += 1
    r = solve([1, 1], [[-1, 0], [0, -1]], [0, 0], [[1, 1]], [2])
    assert r['status'] == 'optimal' and r['value'] == 2 and check_dual([1, 1], [[-1, 0], [0, -1]], [0, 0], [[1, 1]], [2], r)
    return cnt


if __name__ == '__main__':
    print('lpexact selftest ok, %d optimal instances' % selftest())
