"""Plain-Python reference model of cvxopt.blas (no cvxopt, no numpy).

Buffers are flat Python lists (column-major storage, exactly like the buffer of a cvxopt matrix) of float or
complex.  Every kernel takes explicit dimensions, increments, leading dimensions and offsets, follows the
*mathematical* definition of the operation (not the Fortran loops), updates the output buffer in place and
returns the set of buffer indices it is allowed to write (the output footprint).  Scalar-valued kernels return
the value.

Addressing conventions (BLAS):
  vector element i (0 <= i < n) of (x, inc, off)   ->  x[off + i*inc]              if inc > 0
                                                        x[off + (n-1-i)*|inc|]      if inc < 0
  general matrix entry (i, j) of (A, ld, off)       ->  A[off + i + j*ld]
  general band (kl, ku):  entry (i, j)              ->  A[off + (ku + i - j) + j*ld]     for -ku <= i-j <= kl
  symmetric/triangular band k, uplo='L': (i, j)     ->  A[off + (i - j) + j*ld]          for 0 <= i-j <= k
                                uplo='U': (i, j)     ->  A[off + (k + i - j) + j*ld]      for 0 <= j-i <= k

The second half of the file is the *specification table* SPEC (arguments, flag domains, integer domains,
documented default formulas, extents, output argument) and DOC (the argument descriptions transcribed from the
docstrings in src/C/blas.c, whitespace-normalised); `doc_selfcheck` compares DOC and SPEC with the `__doc__`
of the wrappers that are actually under test; `predict` is the model of the documented argument handling
(defaults, domains, buffer-size consistency) and `footprint` gives the sets of indices read / written.
"""
import math
import re


# ---------------------------------------------------------------------------------------------- addressing
def vidx(n, inc, off):
    """buffer indices of the n elements of a strided vector, in logical order."""
    if inc > 0:
        return [off + i * inc for i in range(n)]
    return [off + (n - 1 - i) * (-inc) for i in range(n)]


def vextent(n, inc, off):
    """minimum buffer length needed to hold the vector (0 when nothing is addressed)."""
    return off + 1 + (n - 1) * abs(inc) if n > 0 else 0


def mextent(rows, cols, ld, off):
    """minimum buffer length for a rows x cols array with leading dimension ld (0 when empty)."""
    return off + (cols - 1) * ld + rows if rows > 0 and cols > 0 else 0


def _conj(v):
    return v.conjugate() if isinstance(v, complex) else v


def vget(x, n, inc, off):
    return [x[i] for i in vidx(n, inc, off)]


def ge_get(A, m, n, ld, off):
    """dense m x n matrix as list of rows."""
    return [[A[off + i + j * ld] for j in range(n)] for i in range(m)]


def ge_idx(m, n, ld, off):
    return set(off + i + j * ld for i in range(m) for j in range(n))


def tri_idx(n, ld, off, uplo):
    """indices of the uplo triangle (including the diagonal) of an order-n matrix."""
    if uplo == 'L':
        return set(off + i + j * ld for j in range(n) for i in range(j, n))
    return set(off + i + j * ld for j in range(n) for i in range(0, j + 1))


def sy_get(A, n, ld, off, uplo, herm=False):
    """full symmetric / Hermitian matrix from its stored triangle (Hermitian: diagonal = real part)."""
    M = [[0.0] * n for _ in range(n)]
    for j in range(n):
        for i in range(n):
            stored = (i >= j) if uplo == 'L' else (i <= j)
            if stored:
                v = A[off + i + j * ld]
                if i == j:
                    M[i][j] = (v.real if isinstance(v, complex) else v) if herm else v
                    if herm and isinstance(v, complex):
                        M[i][j] = complex(v.real, 0.0)
                else:
                    M[i][j] = v
                    M[j][i] = _conj(v) if herm else v
    return M


def tr_get(A, n, ld, off, uplo, diag):
    M = [[0.0] * n for _ in range(n)]
    for j in range(n):
        for i in range(n):
            if i == j:
                M[i][j] = 1.0 if diag == 'U' else A[off + i + j * ld]
            elif (i > j) == (uplo == 'L'):
                M[i][j] = A[off + i + j * ld]
    return M


def gb_get(A, m, n, kl, ku, ld, off):
    M = [[0.0] * n for _ in range(m)]
    for j in range(n):
        for i in range(max(0, j - ku), min(m - 1, j + kl) + 1):
            M[i][j] = A[off + (ku + i - j) + j * ld]
    return M


def _band_pos(i, j, k, ld, off, uplo):
    if uplo == 'L':
        return off + (i - j) + j * ld
    return off + (k + i - j) + j * ld


def sb_get(A, n, k, ld, off, uplo, herm=False):
    M = [[0.0] * n for _ in range(n)]
    for j in range(n):
        rng = range(j, min(n - 1, j + k) + 1) if uplo == 'L' else range(max(0, j - k), j + 1)
        for i in rng:
            v = A[_band_pos(i, j, k, ld, off, uplo)]
            if i == j:
                M[i][j] = complex(v.real, 0.0) if (herm and isinstance(v, complex)) else v
            else:
                M[i][j] = v
                M[j][i] = _conj(v) if herm else v
    return M


def tb_get(A, n, k, ld, off, uplo, diag):
    M = [[0.0] * n for _ in range(n)]
    for j in range(n):
        rng = range(j, min(n - 1, j + k) + 1) if uplo == 'L' else range(max(0, j - k), j + 1)
        for i in rng:
            if i == j:
                M[i][j] = 1.0 if diag == 'U' else A[_band_pos(i, j, k, ld, off, uplo)]
            else:
                M[i][j] = A[_band_pos(i, j, k, ld, off, uplo)]
    return M


def op(M, trans, rows, cols):
    """op(M) for trans in N/T/C of a rows x cols matrix (list of rows)."""
    if trans == 'N':
        return [list(r) for r in M]
    if trans == 'T':
        return [[M[i][j] for i in range(rows)] for j in range(cols)]
    return [[_conj(M[i][j]) for i in range(rows)] for j in range(cols)]


def matmul(A, B, p, q, r):
    """(p x q) * (q x r)."""
    return [[sum((A[i][l] * B[l][j] for l in range(q)), 0.0) for j in range(r)] for i in range(p)]


def matvec(M, v, p, q):
    return [sum((M[i][l] * v[l] for l in range(q)), 0.0) for i in range(p)]


def tri_solve(T, b, n):
    """solve T z = b for a (lower or upper) triangular dense T by substitution in the appropriate order."""
    lower = all(T[i][j] == 0 for i in range(n) for j in range(i + 1, n))
    z = [0.0] * n
    order = range(n) if lower else range(n - 1, -1, -1)
    for i in order:
        s = b[i]
        for j in range(n):
            if j != i:
                s = s - T[i][j] * z[j]
        z[i] = s / T[i][i]
    return z


# ------------------------------------------------------------------------------------------------ level 1
def scal(n, alpha, x, inc, off):
    idx = vidx(n, inc, off)
    for i in idx:
        x[i] = alpha * x[i]
    return set(idx)


def nrm2(n, x, inc, off):
    return math.sqrt(sum(abs(v) ** 2 for v in vget(x, n, inc, off)))


def asum(n, x, inc, off):
    s = 0.0
    for v in vget(x, n, inc, off):
        s += (abs(v.real) + abs(v.imag)) if isinstance(v, complex) else abs(v)
    return s


def iamax(n, x, inc, off):
    best, bi = -1.0, 0
    for i, v in enumerate(vget(x, n, inc, off)):
        a = (abs(v.real) + abs(v.imag)) if isinstance(v, complex) else abs(v)
        if a > best:
            best, bi = a, i
    return bi


def dot(n, x, incx, ox, y, incy, oy):
    """x^H y"""
    return sum((_conj(a) * b for a, b in zip(vget(x, n, incx, ox), vget(y, n, incy, oy))), 0.0)


def dotu(n, x, incx, ox, y, incy, oy):
    """x^T y"""
    return sum((a * b for a, b in zip(vget(x, n, incx, ox), vget(y, n, incy, oy))), 0.0)


def axpy(n, alpha, x, incx, ox, y, incy, oy):
    ix, iy = vidx(n, incx, ox), vidx(n, incy, oy)
    for a, b in zip(ix, iy):
        y[b] = alpha * x[a] + y[b]
    return set(iy)


def copy(n, x, incx, ox, y, incy, oy):
    ix, iy = vidx(n, incx, ox), vidx(n, incy, oy)
    for a, b in zip(ix, iy):
        y[b] = x[a]
    return set(iy)


def swap(n, x, incx, ox, y, incy, oy):
    ix, iy = vidx(n, incx, ox), vidx(n, incy, oy)
    for a, b in zip(ix, iy):
        x[a], y[b] = y[b], x[a]
    return set(ix), set(iy)


# ------------------------------------------------------------------------------------------------ level 2
def _mv_update(M, rows, cols, alpha, x, incx, ox, beta, y, incy, oy):
    """y := alpha*M*x + beta*y with M rows x cols dense."""
    xv = vget(x, cols, incx, ox)
    iy = vidx(rows, incy, oy)
    p = matvec(M, xv, rows, cols)
    for i, b in enumerate(iy):
        y[b] = alpha * p[i] + beta * y[b]
    return set(iy)


def gemv(trans, m, n, alpha, A, ldA, oA, x, incx, ox, beta, y, incy, oy):
    M = op(ge_get(A, m, n, ldA, oA), trans, m, n)
    rows, cols = (m, n) if trans == 'N' else (n, m)
    return _mv_update(M, rows, cols, alpha, x, incx, ox, beta, y, incy, oy)


def gbmv(trans, m, n, kl, ku, alpha, A, ldA, oA, x, incx, ox, beta, y, incy, oy):
    M = op(gb_get(A, m, n, kl, ku, ldA, oA), trans, m, n)
    rows, cols = (m, n) if trans == 'N' else (n, m)
    return _mv_update(M, rows, cols, alpha, x, incx, ox, beta, y, incy, oy)


def symv(uplo, n, alpha, A, ldA, oA, x, incx, ox, beta, y, incy, oy, herm=False):
    M = sy_get(A, n, ldA, oA, uplo, herm)
    return _mv_update(M, n, n, alpha, x, incx, ox, beta, y, incy, oy)


def hemv(uplo, n, alpha, A, ldA, oA, x, incx, ox, beta, y, incy, oy):
    return symv(uplo, n, alpha, A, ldA, oA, x, incx, ox, beta, y, incy, oy, herm=True)


def sbmv(uplo, n, k, alpha, A, ldA, oA, x, incx, ox, beta, y, incy, oy, herm=False):
    M = sb_get(A, n, k, ldA, oA, uplo, herm)
    return _mv_update(M, n, n, alpha, x, incx, ox, beta, y, incy, oy)


def hbmv(uplo, n, k, alpha, A, ldA, oA, x, incx, ox, beta, y, incy, oy):
    return sbmv(uplo, n, k, alpha, A, ldA, oA, x, incx, ox, beta, y, incy, oy, herm=True)


def _tv(M, n, trans, x, incx, ox, solve):
    T = op(M, trans, n, n)
    ix = vidx(n, incx, ox)
    xv = [x[i] for i in ix]
    r = tri_solve(T, xv, n) if solve else matvec(T, xv, n, n)
    for i, b in enumerate(ix):
        x[b] = r[i]
    return set(ix)


def trmv(uplo, trans, diag, n, A, ldA, oA, x, incx, ox):
    return _tv(tr_get(A, n, ldA, oA, uplo, diag), n, trans, x, incx, ox, False)


def trsv(uplo, trans, diag, n, A, ldA, oA, x, incx, ox):
    return _tv(tr_get(A, n, ldA, oA, uplo, diag), n, trans, x, incx, ox, True)


def tbmv(uplo, trans, diag, n, k, A, ldA, oA, x, incx, ox):
    return _tv(tb_get(A, n, k, ldA, oA, uplo, diag), n, trans, x, incx, ox, False)


def tbsv(uplo, trans, diag, n, k, A, ldA, oA, x, incx, ox):
    return _tv(tb_get(A, n, k, ldA, oA, uplo, diag), n, trans, x, incx, ox, True)


def ger(m, n, alpha, x, incx, ox, y, incy, oy, A, ldA, oA, conj=True):
    """A := A + alpha*x*y^H  (conj=True)   or   A + alpha*x*y^T."""
    xv, yv = vget(x, m, incx, ox), vget(y, n, incy, oy)
    for j in range(n):
        for i in range(m):
            A[oA + i + j * ldA] = A[oA + i + j * ldA] + alpha * xv[i] * (_conj(yv[j]) if conj else yv[j])
    return ge_idx(m, n, ldA, oA)


def geru(m, n, alpha, x, incx, ox, y, incy, oy, A, ldA, oA):
    return ger(m, n, alpha, x, incx, ox, y, incy, oy, A, ldA, oA, conj=False)


def _tri_pairs(n, uplo):
    return [(i, j) for j in range(n) for i in (range(j, n) if uplo == 'L' else range(0, j + 1))]


def _herm_fix(A, pos, i, j):
    """a Hermitian result has a real diagonal: the stored imaginary part becomes zero."""
    if i == j and isinstance(A[pos], complex):
        A[pos] = complex(A[pos].real, 0.0)


def syr(uplo, n, alpha, x, incx, ox, A, ldA, oA, herm=False):
    xv = vget(x, n, incx, ox)
    for i, j in _tri_pairs(n, uplo):
        p = oA + i + j * ldA
        A[p] = A[p] + alpha * xv[i] * (_conj(xv[j]) if herm else xv[j])
        if herm:
            _herm_fix(A, p, i, j)
    return tri_idx(n, ldA, oA, uplo)


def her(uplo, n, alpha, x, incx, ox, A, ldA, oA):
    return syr(uplo, n, alpha, x, incx, ox, A, ldA, oA, herm=True)


def syr2(uplo, n, alpha, x, incx, ox, y, incy, oy, A, ldA, oA, herm=False):
    xv, yv = vget(x, n, incx, ox), vget(y, n, incy, oy)
    for i, j in _tri_pairs(n, uplo):
        p = oA + i + j * ldA
        if herm:
            A[p] = A[p] + alpha * xv[i] * _conj(yv[j]) + _conj(alpha) * yv[i] * _conj(xv[j])
            _herm_fix(A, p, i, j)
        else:
            A[p] = A[p] + alpha * (xv[i] * yv[j] + yv[i] * xv[j])
    return tri_idx(n, ldA, oA, uplo)


def her2(uplo, n, alpha, x, incx, ox, y, incy, oy, A, ldA, oA):
    return syr2(uplo, n, alpha, x, incx, ox, y, incy, oy, A, ldA, oA, herm=True)


# ------------------------------------------------------------------------------------------------ level 3
def _c_update(P, m, n, alpha, beta, C, ldC, oC):
    for j in range(n):
        for i in range(m):
            p = oC + i + j * ldC
            C[p] = alpha * P[i][j] + beta * C[p]
    return ge_idx(m, n, ldC, oC)


def gemm(transA, transB, m, n, k, alpha, A, ldA, oA, B, ldB, oB, beta, C, ldC, oC):
    ra, ca = (m, k) if transA == 'N' else (k, m)
    rb, cb = (k, n) if transB == 'N' else (n, k)
    OA = op(ge_get(A, ra, ca, ldA, oA), transA, ra, ca)      # m x k
    OB = op(ge_get(B, rb, cb, ldB, oB), transB, rb, cb)      # k x n
    return _c_update(matmul(OA, OB, m, k, n), m, n, alpha, beta, C, ldC, oC)


def symm(side, uplo, m, n, alpha, A, ldA, oA, B, ldB, oB, beta, C, ldC, oC, herm=False):
    na = m if side == 'L' else n
    S = sy_get(A, na, ldA, oA, uplo, herm)
    Bm = ge_get(B, m, n, ldB, oB)
    P = matmul(S, Bm, m, m, n) if side == 'L' else matmul(Bm, S, m, n, n)
    return _c_update(P, m, n, alpha, beta, C, ldC, oC)


def hemm(side, uplo, m, n, alpha, A, ldA, oA, B, ldB, oB, beta, C, ldC, oC):
    return symm(side, uplo, m, n, alpha, A, ldA, oA, B, ldB, oB, beta, C, ldC, oC, herm=True)


def _tri_update(P, n, uplo, beta, C, ldC, oC, herm):
    """C(tri) := P(tri) + beta*C(tri) on the uplo triangle only."""
    for i, j in _tri_pairs(n, uplo):
        p = oC + i + j * ldC
        C[p] = P[i][j] + beta * C[p]
        if herm:
            _herm_fix(C, p, i, j)
    return tri_idx(n, ldC, oC, uplo)


def syrk(uplo, trans, n, k, alpha, A, ldA, oA, beta, C, ldC, oC, herm=False):
    """trans='N': alpha*A*A^T (A^H if herm) + beta*C, A n x k;  else alpha*A^T*A (A^H*A), A k x n."""
    ct = 'C' if herm else 'T'
    if trans == 'N':
        X = ge_get(A, n, k, ldA, oA)
        P = matmul(X, op(X, ct, n, k), n, k, n)
    else:
        X = ge_get(A, k, n, ldA, oA)
        P = matmul(op(X, ct, k, n), X, n, k, n)
    P = [[alpha * v for v in r] for r in P]
    return _tri_update(P, n, uplo, beta, C, ldC, oC, herm)


def herk(uplo, trans, n, k, alpha, A, ldA, oA, beta, C, ldC, oC):
    return syrk(uplo, trans, n, k, alpha, A, ldA, oA, beta, C, ldC, oC, herm=True)


def syr2k(uplo, trans, n, k, alpha, A, ldA, oA, B, ldB, oB, beta, C, ldC, oC, herm=False):
    ct = 'C' if herm else 'T'
    ca = _conj(alpha) if herm else alpha
    if trans == 'N':
        X, Y = ge_get(A, n, k, ldA, oA), ge_get(B, n, k, ldB, oB)
        P1 = matmul(X, op(Y, ct, n, k), n, k, n)
        P2 = matmul(Y, op(X, ct, n, k), n, k, n)
    else:
        X, Y = ge_get(A, k, n, ldA, oA), ge_get(B, k, n, ldB, oB)
        P1 = matmul(op(X, ct, k, n), Y, n, k, n)
        P2 = matmul(op(Y, ct, k, n), X, n, k, n)
    P = [[alpha * P1[i][j] + ca * P2[i][j] for j in range(n)] for i in range(n)]
    return _tri_update(P, n, uplo, beta, C, ldC, oC, herm)


def her2k(uplo, trans, n, k, alpha, A, ldA, oA, B, ldB, oB, beta, C, ldC, oC):
    return syr2k(uplo, trans, n, k, alpha, A, ldA, oA, B, ldB, oB, beta, C, ldC, oC, herm=True)


def _tm(side, uplo, transA, diag, m, n, alpha, A, ldA, oA, B, ldB, oB, solve):
    na = m if side == 'L' else n
    T = op(tr_get(A, na, ldA, oA, uplo, diag), transA, na, na)
    Bm = ge_get(B, m, n, ldB, oB)
    if side == 'L':
        if solve:
            colsR = [tri_solve(T, [alpha * Bm[i][j] for i in range(m)], m) for j in range(n)]
            R = [[colsR[j][i] for j in range(n)] for i in range(m)]
        else:
            R = [[alpha * v for v in r] for r in matmul(T, Bm, m, m, n)]
    else:
        if solve:
            # X T = alpha B   <=>   T^T X^T = alpha B^T   (row by row)
            Tt = op(T, 'T', n, n)
            R = [tri_solve(Tt, [alpha * Bm[i][j] for j in range(n)], n) for i in range(m)]
        else:
            R = [[alpha * v for v in r] for r in matmul(Bm, T, m, n, n)]
    for j in range(n):
        for i in range(m):
            B[oB + i + j * ldB] = R[i][j]
    return ge_idx(m, n, ldB, oB)


def trmm(side, uplo, transA, diag, m, n, alpha, A, ldA, oA, B, ldB, oB):
    return _tm(side, uplo, transA, diag, m, n, alpha, A, ldA, oA, B, ldB, oB, False)


def trsm(side, uplo, transA, diag, m, n, alpha, A, ldA, oA, B, ldB, oB):
    return _tm(side, uplo, transA, diag, m, n, alpha, A, ldA, oA, B, ldB, oB, True)


# =====================================================================================================
#                                     SPECIFICATION TABLE
# =====================================================================================================
# Every entry transcribes the docstring of the wrapper in src/C/blas.c:
#   sig      argument names in keyword order (first `nreq` are required)
#   types    typecodes the documentation allows for the matrix arguments
#   mats     matrix arguments
#   flags    character options and their documented domains (per typecode where they differ)
#   scalars  'num'  = int/float, complex only if the matrices are complex;   'real' = int/float only
#   ints     (name, class, default expression, documented phrase) in *resolution order*; classes:
#              int    any integer, negative (or omitted) -> documented default
#              ld     nonnegative, zero (or omitted) -> documented default, must be >= ldmin
#              nz     nonzero         pos  positive        nn  nonnegative (offsets)
#              nnreq  required nonnegative integer (gbmv m, kl)
#            default expressions are Python transcriptions of the documented formulas; X.r, X.c, X.len are
#            size[0], size[1], len of matrix argument X.
#   require  (argument, condition, 'doc'|'undoc'): condition that must hold when `argument` is defaulted;
#            'doc' = stated in the docstring (violation => the call must be rejected),
#            'undoc' = enforced by the code but not documented (violation => call not judged)
#   arrays   addressed arrays:  ('V', length, inc, offset)  or  ('M', rows, cols, ld, offset)
#   ldmin    documented lower bound of each leading dimension
#   out      arguments the operation may write;  ret: kind of return value
#   kernel   argument list of the reference kernel of the same name above
#   dims     enumeration class of the dimension arguments ('dim' 0..3, 'band' 0..2)
_N1 = "1+(x.len-%s-1)//abs(%s) if x.len>=%s+1 else 0"
_NY = "n == (1+(y.len-offsety-1)//abs(incy) if y.len>=offsety+1 else 0)"


def _l1_single(ret, scal_=False):
    d = dict(sig=(['alpha'] if scal_ else []) + ['x', 'n', 'inc', 'offset'], nreq=2 if scal_ else 1, types='dz',
             mats=['x'], flags={}, scalars={'alpha': 'num'} if scal_ else {},
             ints=[('inc', 'pos', '1', 'positive integer'), ('offset', 'nn', '0', 'nonnegative integer'),
                   ('n', 'int', _N1 % ('offset', 'inc', 'offset'), 'integer')],
             require=[], arrays={'x': ('V', 'n', 'inc', 'offset')}, ldmin={}, out=['x'] if scal_ else [], ret=ret,
             kernel=(['n', 'alpha', 'x', 'inc', 'offset'] if scal_ else ['n', 'x', 'inc', 'offset']),
             dims={'n': 'dim'})
    return d


def _l1_pair(ret, out, alpha=False, req=False):
    return dict(sig=['x', 'y'] + (['alpha'] if alpha else []) + ['n', 'incx', 'incy', 'offsetx', 'offsety'], nreq=2,
                types='dz', mats=['x', 'y'], flags={}, scalars={'alpha': 'num'} if alpha else {},
                ints=[('incx', 'nz', '1', 'nonzero integer'), ('incy', 'nz', '1', 'nonzero integer'),
                      ('offsetx', 'nn', '0', 'nonnegative integer'), ('offsety', 'nn', '0', 'nonnegative integer'),
                      ('n', 'int', _N1 % ('offsetx', 'incx', 'offsetx'), 'integer')],
                require=[('n', _NY, 'doc')] if req else [],
                arrays={'x': ('V', 'n', 'incx', 'offsetx'), 'y': ('V', 'n', 'incy', 'offsety')}, ldmin={},
                out=out, ret=ret,
                kernel=['n'] + (['alpha'] if alpha else []) + ['x', 'incx', 'offsetx', 'y', 'incy', 'offsety'],
                dims={'n': 'dim'})


_INCX = ('incx', 'nz', '1', 'nonzero integer')
_INCY = ('incy', 'nz', '1', 'nonzero integer')


def _off(*names):
    return [('offset' + n, 'nn', '0', 'nonnegative integer') for n in names]


def _ld(name, default='max(1,%s.r)', phrase='nonnegative integer'):
    return ('ld' + name, 'ld', default % name if '%s' in default else default, phrase)


def _mv(flagname, flagdom, n_args, arrays_A, ldmin, kernel_head, types='dz', sc='num', extra_ints=(), require=(),
        dims=None, sig_extra=(), pre=()):
    """matrix-vector product family y := alpha*op(A)*x + beta*y."""
    return dict(sig=['A'] + list(pre) + ['x', 'y', flagname, 'alpha', 'beta'] + list(sig_extra) +
                ['ldA', 'incx', 'incy', 'offsetA', 'offsetx', 'offsety'],
                nreq=3 + len(pre), types=types, mats=['A', 'x', 'y'], flags={flagname: flagdom},
                scalars={'alpha': sc, 'beta': sc},
                ints=list(extra_ints) + [_INCX, _INCY] + _off('A', 'x', 'y'),
                require=list(require), arrays=arrays_A, ldmin=ldmin, out=['y'], ret=None,
                kernel=kernel_head + ['alpha', 'A', 'ldA', 'offsetA', 'x', 'incx', 'offsetx', 'beta', 'y', 'incy',
                                      'offsety'],
                dims=dims)


_SQ = "A.r == A.c"


def _symv(types, sc):
    return _mv('uplo', 'LU', None,
               {'A': ('M', 'n', 'n', 'ldA', 'offsetA'), 'x': ('V', 'n', 'incx', 'offsetx'),
                'y': ('V', 'n', 'incy', 'offsety')},
               {'ldA': 'max(1,n)'}, ['uplo', 'n'], types=types, sc=sc,
               extra_ints=[('n', 'int', 'A.r', 'integer'), _ld('A')], require=[('n', _SQ, 'doc')],
               dims={'n': 'dim'}, sig_extra=['n'])


def _sbmv(types, sc):
    return _mv('uplo', 'LU', None,
               {'A': ('M', 'k+1', 'n', 'ldA', 'offsetA'), 'x': ('V', 'n', 'incx', 'offsetx'),
                'y': ('V', 'n', 'incy', 'offsety')},
               {'ldA': 'k+1'}, ['uplo', 'n', 'k'], types=types, sc=sc,
               extra_ints=[('n', 'int', 'A.c', 'integer'), ('k', 'int', 'max(0,A.r-1)', 'integer'),
                           _ld('A', 'A.r')],
               dims={'n': 'dim', 'k': 'band'}, sig_extra=['n', 'k'])


def _spec_tv(band, ndoc='integer', require=()):
    ints = [('n', 'int', 'A.c' if band else 'A.r', ndoc)]
    if band:
        ints.append(('k', 'int', 'max(0,A.r-1)', 'nonnegative integer'))
    ints.append(_ld('A', 'A.r') if band else _ld('A'))
    return dict(sig=['A', 'x', 'uplo', 'trans', 'diag', 'n'] + (['k'] if band else []) +
                ['ldA', 'incx', 'offsetA', 'offsetx'], nreq=2, types='dz', mats=['A', 'x'],
                flags={'uplo': 'LU', 'trans': 'NTC', 'diag': 'NU'}, scalars={},
                ints=ints + [_INCX] + _off('A', 'x'), require=list(require),
                arrays={'A': ('M', 'k+1' if band else 'n', 'n', 'ldA', 'offsetA'), 'x': ('V', 'n', 'incx', 'offsetx')},
                ldmin={'ldA': 'k+1' if band else 'max(1,n)'}, out=['x'], ret=None,
                kernel=['uplo', 'trans', 'diag', 'n'] + (['k'] if band else []) + ['A', 'ldA', 'offsetA', 'x', 'incx',
                                                                                    'offsetx'],
                dims={'n': 'dim', 'k': 'band'} if band else {'n': 'dim'})


def _ger():
    return dict(sig=['x', 'y', 'A', 'alpha', 'm', 'n', 'incx', 'incy', 'ldA', 'offsetx', 'offsety', 'offsetA'], nreq=3,
                types='dz', mats=['x', 'y', 'A'], flags={}, scalars={'alpha': 'num'},
                ints=[('m', 'int', 'A.r', 'integer'), ('n', 'int', 'A.c', 'integer'), _INCX, _INCY, _ld('A')] +
                _off('x', 'y', 'A'), require=[],
                arrays={'x': ('V', 'm', 'incx', 'offsetx'), 'y': ('V', 'n', 'incy', 'offsety'),
                        'A': ('M', 'm', 'n', 'ldA', 'offsetA')},
                ldmin={'ldA': 'max(1,m)'}, out=['A'], ret=None,
                kernel=['m', 'n', 'alpha', 'x', 'incx', 'offsetx', 'y', 'incy', 'offsety', 'A', 'ldA', 'offsetA'],
                dims={'m': 'dim', 'n': 'dim'})


def _syr(types, sc, two):
    return dict(sig=['x'] + (['y'] if two else []) + ['A', 'uplo', 'alpha', 'n', 'incx'] + (['incy'] if two else []) +
                ['ldA', 'offsetx'] + (['offsety'] if two else []) + ['offsetA'], nreq=3 if two else 2,
                types=types, mats=['x'] + (['y'] if two else []) + ['A'], flags={'uplo': 'LU'}, scalars={'alpha': sc},
                ints=[('n', 'int', 'A.r', 'integer'), _INCX] + ([_INCY] if two else []) + [_ld('A')] +
                _off(*(['x', 'y', 'A'] if two else ['x', 'A'])),
                require=[('n', _SQ, 'undoc')],
                arrays=dict([('x', ('V', 'n', 'incx', 'offsetx')), ('A', ('M', 'n', 'n', 'ldA', 'offsetA'))] +
                            ([('y', ('V', 'n', 'incy', 'offsety'))] if two else [])),
                ldmin={'ldA': 'max(1,n)'}, out=['A'], ret=None,
                kernel=['uplo', 'n', 'alpha', 'x', 'incx', 'offsetx'] + (['y', 'incy', 'offsety'] if two else []) +
                ['A', 'ldA', 'offsetA'], dims={'n': 'dim'})


_VAC3 = " if m>0 and n>0 else 0"


def _symm():
    na = "(m if side=='L' else n)"
    return dict(sig=['A', 'B', 'C', 'side', 'uplo', 'alpha', 'beta', 'm', 'n', 'ldA', 'ldB', 'ldC', 'offsetA',
                     'offsetB', 'offsetC'], nreq=3, types='dz', mats=['A', 'B', 'C'],
                flags={'side': 'LR', 'uplo': 'LU'}, scalars={'alpha': 'num', 'beta': 'num'},
                ints=[('m', 'int', 'B.r', 'integer'), ('n', 'int', 'B.c', 'integer'), _ld('A'), _ld('B'), _ld('C')] +
                _off('A', 'B', 'C'),
                require=[('m', "side != 'L' or (m == A.r and m == A.c)", 'doc'),
                         ('n', "side != 'R' or (n == A.r and n == A.c)", 'doc')],
                arrays={'A': ('M', na, na, 'ldA', 'offsetA'), 'B': ('M', 'm', 'n', 'ldB', 'offsetB'),
                        'C': ('M', 'm', 'n', 'ldC', 'offsetC')},
                # the docstring gives "ldB >= max(1, (side == 'L') ? n : m)", which contradicts B being m by n;
                # the bound that follows from the storage scheme (and from the BLAS definition) is used.
                ldmin={'ldA': 'max(1,%s)' % na, 'ldB': 'max(1,m)', 'ldC': 'max(1,m)'}, out=['C'], ret=None,
                kernel=['side', 'uplo', 'm', 'n', 'alpha', 'A', 'ldA', 'offsetA', 'B', 'ldB', 'offsetB', 'beta', 'C',
                        'ldC', 'offsetC'], dims={'m': 'dim', 'n': 'dim'})


def _rk(two, flagdom, sa, sb):
    nd = "A.r if trans=='N' else A.c"
    kd = "A.c if trans=='N' else A.r"
    ra, ca = "(n if trans=='N' else k)", "(k if trans=='N' else n)"
    mats = ['A'] + (['B'] if two else []) + ['C']
    req = []
    if two:
        req = [('n', "n == (B.r if trans=='N' else B.c)", 'doc'), ('k', "k == (B.c if trans=='N' else B.r)", 'doc')]
    arrays = {'A': ('M', ra, ca, 'ldA', 'offsetA'), 'C': ('M', 'n', 'n', 'ldC', 'offsetC')}
    ldmin = {'ldA': 'max(1,%s)' % ra, 'ldC': 'max(1,n)'}
    if two:
        arrays['B'] = ('M', ra, ca, 'ldB', 'offsetB')
        ldmin['ldB'] = 'max(1,%s)' % ra
    return dict(sig=mats + ['uplo', 'trans', 'alpha', 'beta', 'n', 'k'] + ['ld' + t for t in mats] +
                ['offset' + t for t in mats], nreq=len(mats), types='dz', mats=mats,
                flags={'uplo': 'LU', 'trans': flagdom}, scalars={'alpha': sa, 'beta': sb},
                ints=[('n', 'int', nd, 'integer'), ('k', 'int', kd, 'integer')] + [_ld(t) for t in mats] + _off(*mats),
                require=req, arrays=arrays, ldmin=ldmin, out=['C'], ret=None,
                kernel=['uplo', 'trans', 'n', 'k', 'alpha', 'A', 'ldA', 'offsetA'] +
                (['B', 'ldB', 'offsetB'] if two else []) + ['beta', 'C', 'ldC', 'offsetC'],
                dims={'n': 'dim', 'k': 'dim'})


def _trm():
    na = "(m if side=='L' else n)"
    return dict(sig=['A', 'B', 'side', 'uplo', 'transA', 'diag', 'alpha', 'm', 'n', 'ldA', 'ldB', 'offsetA', 'offsetB'],
                nreq=2, types='dz', mats=['A', 'B'],
                flags={'side': 'LR', 'uplo': 'LU', 'transA': 'NTC', 'diag': 'NU'}, scalars={'alpha': 'num'},
                ints=[('m', 'int', "A.r if side=='L' else B.r", 'integer'),
                      ('n', 'int', "B.c if side=='L' else A.r", 'integer'), _ld('A'), _ld('B')] + _off('A', 'B'),
                require=[('m', "side != 'L' or m == A.c", 'doc'), ('n', "side != 'R' or n == A.c", 'doc')],
                arrays={'A': ('M', na, na, 'ldA', 'offsetA'), 'B': ('M', 'm', 'n', 'ldB', 'offsetB')},
                ldmin={'ldA': 'max(1,%s)' % na, 'ldB': 'max(1,m)'}, out=['B'], ret=None,
                kernel=['side', 'uplo', 'transA', 'diag', 'm', 'n', 'alpha', 'A', 'ldA', 'offsetA', 'B', 'ldB',
                        'offsetB'], dims={'m': 'dim', 'n': 'dim'})


SPEC = {
    'scal': _l1_single(None, scal_=True),
    'nrm2': _l1_single('float'),
    'asum': _l1_single('float'),
    'iamax': _l1_single('int'),
    'dot': _l1_pair('num', [], req=True),
    'dotu': _l1_pair('num', [], req=True),
    'axpy': _l1_pair(None, ['y'], alpha=True),
    'copy': _l1_pair(None, ['y']),
    'swap': _l1_pair(None, ['x', 'y'], req=True),
    'gemv': _mv('trans', 'NTC', None,
                {'A': ('M', 'm', 'n', 'ldA', 'offsetA'), 'x': ('V', "n if trans=='N' else m", 'incx', 'offsetx'),
                 'y': ('V', "m if trans=='N' else n", 'incy', 'offsety')},
                {'ldA': 'max(1,m)'}, ['trans', 'm', 'n'],
                extra_ints=[('m', 'int', 'A.r', 'integer'), ('n', 'int', 'A.c', 'integer'), _ld('A')],
                dims={'m': 'dim', 'n': 'dim'}, sig_extra=['m', 'n']),
    'gbmv': _mv('trans', 'NTC', None,
                {'A': ('M', 'kl+ku+1 if m>0 else 0', 'n', 'ldA', 'offsetA'),
                 'x': ('V', "n if trans=='N' else m", 'incx', 'offsetx'),
                 'y': ('V', "m if trans=='N' else n", 'incy', 'offsety')},
                {'ldA': 'kl+ku+1'}, ['trans', 'm', 'n', 'kl', 'ku'],
                extra_ints=[('m', 'nnreq', None, 'nonnegative integer'), ('kl', 'nnreq', None, 'nonnegative integer'),
                            ('n', 'int', 'A.c', 'nonnegative integer'),
                            ('ku', 'int', 'A.r-kl-1', 'nonnegative integer'),
                            _ld('A', phrase='positive integer')],
                dims={'m': 'dim', 'n': 'dim', 'kl': 'band', 'ku': 'band'}, sig_extra=['n', 'ku'], pre=['m', 'kl']),
    'symv': _symv('d', 'real'),
    'hemv': _symv('dz', 'num'),
    'sbmv': _sbmv('d', 'real'),
    'hbmv': _sbmv('dz', 'num'),
    'trmv': _spec_tv(False, require=[('n', _SQ, 'doc')]),
    'trsv': _spec_tv(False, require=[('n', _SQ, 'doc')]),
    'tbmv': _spec_tv(True, ndoc='nonnegative integer'),
    'tbsv': _spec_tv(True, ndoc='nonnegative integer'),
    'ger': _ger(),
    'geru': _ger(),
    'syr': _syr('d', 'real', False),
    'her': _syr('dz', 'real', False),
    'syr2': _syr('d', 'real', True),
    'her2': _syr('dz', 'num', True),
    'gemm': dict(sig=['A', 'B', 'C', 'transA', 'transB', 'alpha', 'beta', 'm', 'n', 'k', 'ldA', 'ldB', 'ldC', 'offsetA',
                      'offsetB', 'offsetC'], nreq=3, types='dz', mats=['A', 'B', 'C'],
                 flags={'transA': 'NTC', 'transB': 'NTC'}, scalars={'alpha': 'num', 'beta': 'num'},
                 ints=[('m', 'int', "A.r if transA=='N' else A.c", 'integer'),
                       ('n', 'int', "B.c if transB=='N' else B.r", 'integer'),
                       ('k', 'int', "A.c if transA=='N' else A.r", 'integer'), _ld('A'), _ld('B'), _ld('C')] +
                 _off('A', 'B', 'C'),
                 require=[('k', "k == (B.r if transB=='N' else B.c)", 'doc')],
                 arrays={'A': ('M', "(m if transA=='N' else k)", "(k if transA=='N' else m)", 'ldA', 'offsetA'),
                         'B': ('M', "(k if transB=='N' else n)", "(n if transB=='N' else k)", 'ldB', 'offsetB'),
                         'C': ('M', 'm', 'n', 'ldC', 'offsetC')},
                 ldmin={'ldA': "max(1,(m if transA=='N' else k))", 'ldB': "max(1,(k if transB=='N' else n))",
                        'ldC': 'max(1,m)'}, out=['C'], ret=None,
                 kernel=['transA', 'transB', 'm', 'n', 'k', 'alpha', 'A', 'ldA', 'offsetA', 'B', 'ldB', 'offsetB', 'beta',
                         'C', 'ldC', 'offsetC'], dims={'m': 'dim', 'n': 'dim', 'k': 'dim'}),
    'symm': _symm(),
    'hemm': _symm(),
    'syrk': _rk(False, 'NT', 'num', 'num'),
    'herk': _rk(False, 'NC', 'real', 'real'),
    'syr2k': _rk(True, {'d': 'NTC', 'z': 'NT'}, 'num', 'num'),
    'her2k': _rk(True, 'NC', 'num', 'real'),
    'trmm': _trm(),
    'trsm': _trm(),
}
# the real symmetric routines have no 'y'/'beta' etc. differences beyond the helper arguments; fix the few
# signature details that do not follow the family pattern
SPEC['gbmv']['sig'] = ['A', 'm', 'kl', 'x', 'y', 'trans', 'alpha', 'beta', 'n', 'ku', 'ldA', 'incx', 'incy', 'offsetA',
                       'offsetx', 'offsety']
FUNCTIONS = ['scal', 'nrm2', 'asum', 'iamax', 'dot', 'dotu', 'axpy', 'copy', 'swap',
             'gemv', 'gbmv', 'symv', 'hemv', 'sbmv', 'hbmv', 'trmv', 'tbmv', 'trsv', 'tbsv',
             'ger', 'geru', 'syr', 'her', 'syr2', 'her2',
             'gemm', 'symm', 'hemm', 'syrk', 'herk', 'syr2k', 'her2k', 'trmm', 'trsm']
assert sorted(FUNCTIONS) == sorted(SPEC)


def flag_domain(f, name, tc):
    d = SPEC[f]['flags'][name]
    return d[tc] if isinstance(d, dict) else d


# =====================================================================================================
#                        DOCSTRING TRANSCRIPTION  +  SELF-CHECK OF THE TABLE ABOVE
# =====================================================================================================
def parse_doc(doc):
    """docstring of a wrapper -> (signature line, {argument: whitespace-normalised description}, order)."""
    doc = doc.replace('\t', ' ')
    m = re.search(r'\n\n(\w+\(.*?\))\s*\n\n', doc, re.S)
    sig = re.sub(r'\s+', ' ', m.group(1)).strip()
    body = doc[doc.index('ARGUMENTS') + len('ARGUMENTS'):]
    args, order, cur = {}, [], None
    for line in body.split('\n'):
        mm = re.match(r'^(\w+)\s{2,}(\S.*)$', line)
        if mm and not line.startswith(' '):
            cur = mm.group(1)
            args[cur] = mm.group(2).strip()
            order.append(cur)
        elif line.startswith(' ') and cur and line.strip():
            args[cur] += ' ' + line.strip()
        elif line.strip() and not line.startswith(' '):
            cur = None
    return sig, dict((k, re.sub(r'\s+', ' ', v).strip()) for k, v in args.items()), order


def doc_phrase(text):
    """(domain phrase, mentions a default value) of an integer argument description."""
    m = re.match(r'((?:positive|nonzero|nonnegative) )?integer', text)
    return (m.group(0) if m else None), ('default value' in text)


class SpecError(Exception):
    pass


def doc_selfcheck(blas_module):
    """Compare DOC (transcription) and SPEC (hand-written table) with the docstrings of the wrappers under test.
    Any difference is an error of the harness (SpecError), not a property violation."""
    names = sorted(n for n in dir(blas_module) if not n.startswith('_'))
    if names != sorted(SPEC):
        raise SpecError('function list differs: module %r, table %r' % (names, sorted(SPEC)))
    for f in names:
        sig, args, order = parse_doc(getattr(blas_module, f).__doc__)
        if sig != DOC[f]['sig']:
            raise SpecError('%s: signature line changed: %r != %r' % (f, sig, DOC[f]['sig']))
        if args != DOC[f]['args']:
            bad = [a for a in set(args) | set(DOC[f]['args']) if args.get(a) != DOC[f]['args'].get(a)]
            raise SpecError('%s: argument description changed for %r: %r != %r'
                            % (f, bad, [args.get(a) for a in bad], [DOC[f]['args'].get(a) for a in bad]))
        sp = SPEC[f]
        if sorted(order) != sorted(sp['sig']):
            raise SpecError('%s: argument names %r != table %r' % (f, sorted(order), sorted(sp['sig'])))
        for (name, cls, default, phrase) in sp['ints']:
            ph, hasdef = doc_phrase(args[name])
            if ph != phrase:
                raise SpecError('%s.%s: documented domain %r, table says %r' % (f, name, ph, phrase))
            if hasdef != (cls in ('int', 'ld')):
                raise SpecError('%s.%s: documentation %s a default value, table class is %r'
                                % (f, name, 'mentions' if hasdef else 'does not mention', cls))
            if cls == 'ld' and not re.search(r'If zero,? the default value is used', args[name]):
                raise SpecError('%s.%s: "if zero the default value is used" not documented' % (f, name))
            if cls == 'int' and not re.search(r'If (n<0|negative), the default value', args[name]):
                raise SpecError('%s.%s: "if negative the default value is used" not documented' % (f, name))
        for name in sp['flags']:
            dom = sp['flags'][name]
            doms = set(''.join(dom.values())) if isinstance(dom, dict) else set(dom)
            documented = set(re.findall(r"'([A-Z])'", args[name]))
            # 'C' for trmv/trmm/trsm transposition is documented in the PURPOSE section only
            if not documented <= doms or not doms - documented <= set('C'):
                raise SpecError('%s.%s: documented flag values %r, table %r' % (f, name, documented, doms))
        for name, cls in sp['scalars'].items():
            real = args[name].startswith('real number')
            if real != (cls == 'real') and not (f == 'herk' and name == 'beta'):
                raise SpecError('%s.%s: scalar class %r but documentation says %r' % (f, name, cls, args[name]))
        for name in sp['mats']:
            t = set(re.findall(r"'([dz])'", args[name].split('.')[0]))
            if t != set(sp['types']):
                raise SpecError('%s.%s: documented typecodes %r, table %r' % (f, name, t, sp['types']))
        # defaults written in the signature line (name=expr) against the table's default expressions
        for name, expr in sig_defaults(sig):
            ent = [e for e in sp['ints'] if e[0] == name]
            if not ent or expr == 'None':
                continue
            want = _norm_default(ent[0][2])
            got = _norm_default(expr)
            if got != want and (f, name) not in SIG_DEFAULT_EXCEPTIONS:
                raise SpecError('%s.%s: signature default %r, table %r' % (f, name, got, want))
    return True


def sig_defaults(sig):
    """'f(a, b=1, c=max(1,A.size[0]))' -> [('b', '1'), ('c', 'max(1,A.size[0])')]"""
    inner = sig[sig.index('(') + 1:]
    if inner.endswith(')'):
        inner = inner[:-1]
    parts, depth, cur = [], 0, ''
    for ch in inner:
        if ch in '([':
            depth += 1
        elif ch in ')]':
            depth = max(0, depth - 1)
        if ch == ',' and depth == 0:
            parts.append(cur)
            cur = ''
        else:
            cur += ch
    parts.append(cur)
    out = []
    for p_ in parts:
        if '=' in p_:
            name, expr = p_.split('=', 1)
            expr = expr.strip()
            while expr.count(')') > expr.count('('):
                expr = expr[:-1]
            out.append((name.strip(), expr))
    return out


def _norm_default(e):
    return e.strip().replace('.size[0]', '.r').replace('.size[1]', '.c').replace(' ', '')


# signature-line defaults that are only meaningful together with the ARGUMENTS text (conditional defaults are
# written there, the signature shows one branch or None)
SIG_DEFAULT_EXCEPTIONS = set()

# transcription of the ARGUMENTS sections of the docstrings in src/C/blas.c (whitespace normalised)
DOC = {'asum': {'args': {'inc': 'positive integer',
                   'n': 'integer. If n<0, the default value of n is used. The default value is equal to n = '
                        '(len(x)>=offset+1) ? 1+(len(x)-offset-1)/inc : 0.',
                   'offset': 'nonnegative integer',
                   'x': "'d' or 'z' matrix"},
          'sig': 'asum(x, n=None, inc=1, offset=0)'},
 'axpy': {'args': {'alpha': 'number (int, float or complex). Complex alpha is only allowed if x is complex.',
                   'incx': 'nonzero integer',
                   'incy': 'nonzero integer',
                   'n': 'integer. If n<0, the default value of n is used. The default value is equal to '
                        '(len(x)>=offsetx+1) ? 1+(len(x)-offsetx-1)/incx : 0.',
                   'offsetx': 'nonnegative integer',
                   'offsety': 'nonnegative integer',
                   'x': "'d' or 'z' matrix",
                   'y': "'d' or 'z' matrix. Must have the same type as x."},
          'sig': 'axpy(x, y, alpha=1.0, n=None, incx=1, incy=1, offsetx=0, offsety=0)'},
 'copy': {'args': {'incx': 'nonzero integer',
                   'incy': 'nonzero integer',
                   'n': 'integer. If n<0, the default value of n is used. The default value is given by '
                        '(len(x)>=offsetx+1) ? 1+(len(x)-offsetx-1)/incx : 0',
                   'offsetx': 'nonnegative integer',
                   'offsety': 'nonnegative integer',
                   'x': "'d' or 'z' matrix",
                   'y': "'d' or 'z' matrix. Must have the same type as x."},
          'sig': 'copy(x, y, n=None, incx=1, incy=1, offsetx=0, offsety=0)'},
 'dot': {'args': {'incx': 'nonzero integer',
                  'incy': 'nonzero integer',
                  'n': 'integer. If n<0, the default value of n is used. The default value is equal to '
                       '(len(x)>=offsetx+1) ? 1+(len(x)-offsetx-1)/incx : 0. If the default value is used, it must '
                       'be equal to len(y)>=offsety+1 ? 1+(len(y)-offsetx-1)/|incy| : 0.',
                  'offsetx': 'nonnegative integer',
                  'offsety': 'nonnegative integer',
                  'x': "'d' or 'z' matrix",
                  'y': "'d' or 'z' matrix. Must have the same type as x."},
         'sig': 'dot(x, y, n=None, incx=1, incy=1, offsetx=0, offsety=0)'},
 'dotu': {'args': {'incx': 'nonzero integer',
                   'incy': 'nonzero integer',
                   'n': 'integer. If n<0, the default value of n is used. The default value is equal to '
                        '(len(x)>=offsetx+1) ? 1+(len(x)-offsetx-1)/incx : 0. If the default value is used, it must '
                        'be equal to len(y)>=offsety+1 ? 1+(len(y)-offsetx-1)/|incy| : 0.',
                   'offsetx': 'nonnegative integer',
                   'offsety': 'nonnegative integer',
                   'x': "'d' or 'z' matrix",
                   'y': "'d' or 'z' matrix. Must have the same type as x."},
          'sig': 'dotu(x, y, n=None, incx=1, incy=1, offsetx=0, offsety=0)'},
 'gbmv': {'args': {'A': "'d' or 'z' matrix. Must have the same type as A.",
                   'alpha': 'number (int, float or complex). Complex alpha is only allowed if A is complex.',
                   'beta': 'number (int, float or complex). Complex beta is only allowed if A is complex.',
                   'incx': 'nonzero integer',
                   'incy': 'nonzero integer',
                   'kl': 'nonnegative integer',
                   'ku': 'nonnegative integer. If negative, the default value is used.',
                   'ldA': 'positive integer. ldA >= kl+ku+1. If zero, the default value is used.',
                   'm': 'nonnegative integer',
                   'n': 'nonnegative integer. If negative, the default value is used.',
                   'offsetA': 'nonnegative integer',
                   'offsetx': 'nonnegative integer',
                   'offsety': 'nonnegative integer',
                   'trans': "'N', 'T' or 'C'",
                   'x': "'d' or 'z' matrix. Must have the same type as A.",
                   'y': "'d' or 'z' matrix. Must have the same type as A."},
          'sig': "gbmv(A, m, kl, x, y, trans='N', alpha=1.0, beta=0.0, n=A.size[1], ku=A.size[0]-kl-1, "
                 'ldA=max(1,A.size[0]), incx=1, incy=1, offsetA=0, offsetx=0, offsety=0)'},
 'gemm': {'args': {'A': "'d' or 'z' matrix",
                   'B': "'d' or 'z' matrix. Must have the same type as A.",
                   'C': "'d' or 'z' matrix. Must have the same type as A.",
                   'alpha': 'number (int, float or complex). Complex alpha is only allowed if A is complex.',
                   'beta': 'number (int, float or complex). Complex beta is only allowed if A is complex.',
                   'k': "integer. If negative, the default value is used. The default value is (transA == 'N') ? "
                        "A.size[1] : A.size[0], transA='N'. If the default value is used it should also be equal to "
                        "(transB == 'N') ? B.size[0] : B.size[1].",
                   'ldA': "nonnegative integer. ldA >= max(1,(transA == 'N') ? m : k). If zero, the default value is "
                          'used.',
                   'ldB': "nonnegative integer. ldB >= max(1,(transB == 'N') ? k : n). If zero, the default value is "
                          'used.',
                   'ldC': 'nonnegative integer. ldC >= max(1,m). If zero, the default value is used.',
                   'm': "integer. If negative, the default value is used. The default value is m = (transA == 'N') ? "
                        'A.size[0] : A.size[1].',
                   'n': "integer. If negative, the default value is used. The default value is n = (transB == 'N') ? "
                        'B.size[1] : B.size[0].',
                   'offsetA': 'nonnegative integer',
                   'offsetB': 'nonnegative integer',
                   'offsetC': 'nonnegative integer',
                   'transA': "'N', 'T' or 'C'",
                   'transB': "'N', 'T' or 'C'"},
          'sig': "gemm(A, B, C, transA='N', transB='N', alpha=1.0, beta=0.0, m=None, n=None, k=None, "
                 'ldA=max(1,A.size[0]), ldB=max(1,B.size[0]), ldC=max(1,C.size[0]), offsetA=0, offsetB=0, '
                 'offsetC=0)'},
 'gemv': {'args': {'A': "'d' or 'z' matrix",
                   'alpha': 'number (int, float or complex). Complex alpha is only allowed if A is complex.',
                   'beta': 'number (int, float or complex). Complex beta is only allowed if A is complex.',
                   'incx': 'nonzero integer',
                   'incy': 'nonzero integer',
                   'ldA': 'nonnegative integer. ldA >= max(1,m). If zero, the default value is used.',
                   'm': 'integer. If negative, the default value is used.',
                   'n': 'integer. If negative, the default value is used.',
                   'offsetA': 'nonnegative integer',
                   'offsetx': 'nonnegative integer',
                   'offsety': 'nonnegative integer',
                   'trans': "'N', 'T' or 'C'",
                   'x': "'d' or 'z' matrix. Must have the same type as A.",
                   'y': "'d' or 'z' matrix. Must have the same type as A."},
          'sig': "gemv(A, x, y, trans='N', alpha=1.0, beta=0.0, m=A.size[0], n=A.size[1], ldA=max(1,A.size[0]), "
                 'incx=1, incy=1, offsetA=0, offsetx=0, offsety=0)'},
 'ger': {'args': {'A': "'d' or 'z' matrix. Must have the same type as x.",
                  'alpha': 'number (int, float or complex). Complex alpha is only allowed if A is complex.',
                  'incx': 'nonzero integer',
                  'incy': 'nonzero integer',
                  'ldA': 'nonnegative integer. ldA >= max(1,m). If zero, the default value is used.',
                  'm': 'integer. If negative, the default value is used.',
                  'n': 'integer. If negative, the default value is used.',
                  'offsetA': 'nonnegative integer',
                  'offsetx': 'nonnegative integer',
                  'offsety': 'nonnegative integer',
                  'x': "'d' or 'z' matrix",
                  'y': "'d' or 'z' matrix. Must have the same type as x."},
         'sig': 'ger(x, y, A, alpha=1.0, m=A.size[0], n=A.size[1], incx=1, incy=1, ldA=max(1,A.size[0]), offsetx=0, '
                'offsety=0, offsetA=0)'},
 'geru': {'args': {'A': "'d' or 'z' matrix. Must have the same type as x.",
                   'alpha': 'number (int, float or complex). Complex alpha is only allowed if A is complex.',
                   'incx': 'nonzero integer',
                   'incy': 'nonzero integer',
                   'ldA': 'nonnegative integer. ldA >= max(1,m). If zero, the default value is used.',
                   'm': 'integer. If negative, the default value is used.',
                   'n': 'integer. If negative, the default value is used.',
                   'offsetA': 'nonnegative integer',
                   'offsetx': 'nonnegative integer',
                   'offsety': 'nonnegative integer',
                   'x': "'d' or 'z' matrix",
                   'y': "'d' or 'z' matrix. Must have the same type as x."},
          'sig': 'geru(x, y, A, m=A.size[0], n=A.size[1], alpha=1.0, incx=1, incy=1, ldA=max(1,A.size[0]), '
                 'offsetx=0, offsety=0, offsetA=0)'},
 'hbmv': {'args': {'A': "'d' or 'z' matrix",
                   'alpha': 'number (int, float or complex). Complex alpha is only allowed if A is complex.',
                   'beta': 'number (int, float or complex). Complex beta is only allowed if A is complex.',
                   'incx': 'nonzero integer',
                   'incy': 'nonzero integer',
                   'k': 'integer. If negative, the default value is used. The default value is k = '
                        'max(0,A.size[0]-1).',
                   'ldA': 'nonnegative integer. ldA >= k+1. If zero, the default value is used.',
                   'n': 'integer. If negative, the default value is used.',
                   'offsetA': 'nonnegative integer.',
                   'offsetx': 'nonnegative integer.',
                   'offsety': 'nonnegative integer.',
                   'uplo': "'L' or 'U'",
                   'x': "'d' or 'z' matrix. Must have the same type as A.",
                   'y': "'d' or 'z' matrix. Must have the same type as A."},
          'sig': "hbmv(A, x, y, uplo='L', alpha=1.0, beta=0.0, n=A.size[1], k=None, ldA=A.size[0], incx=1, incy=1, "
                 'offsetA=0, offsetx=0, offsety=0)'},
 'hemm': {'args': {'A': "'d' or 'z' matrix",
                   'B': "'d' or 'z' matrix. Must have the same type as A.",
                   'C': "'d' or 'z' matrix. Must have the same type as A.",
                   'alpha': 'number (int, float or complex). Complex alpha is only allowed if A is complex.',
                   'beta': 'number (int, float or complex). Complex beta is only allowed if A is complex.',
                   'ldA': "nonnegative integer. ldA >= max(1, (side == 'L') ? m : n). If zero, the default value is "
                          'used.',
                   'ldB': "nonnegative integer. ldB >= max(1, (side == 'L') ? n : m). If zero, the default value is "
                          'used.',
                   'ldC': 'nonnegative integer. ldC >= max(1,m). If zero, the default value is used.',
                   'm': 'integer. If negative, the default value is used. If the default value is used and side = '
                        "'L', then m must be equal to A.size[0] and A.size[1].",
                   'n': 'integer. If negative, the default value is used. If the default value is used and side = '
                        "'R', then must be equal to A.size[0] and A.size[1].",
                   'offsetA': 'nonnegative integer',
                   'offsetB': 'nonnegative integer',
                   'offsetC': 'nonnegative integer',
                   'side': "'L' or 'R'",
                   'uplo': "'L' or 'U'"},
          'sig': "hemm(A, B, C, side='L', uplo='L', alpha=1.0, beta=0.0, m=B.size[0], n=B.size[1], "
                 'ldA=max(1,A.size[0]), ldB=max(1,B.size[0]), ldC=max(1,C.size[0]), offsetA=0, offsetB=0, '
                 'offsetC=0)'},
 'hemv': {'args': {'A': "'d' or 'z' matrix",
                   'alpha': 'number (int, float or complex). Complex alpha is only allowed if A is complex.',
                   'beta': 'number (int, float or complex). Complex beta is only allowed if A is complex.',
                   'incx': 'nonzero integer',
                   'incy': 'nonzero integer',
                   'ldA': 'nonnegative integer. ldA >= max(1,n). If zero, the default value is used.',
                   'n': 'integer. If negative, the default value is used. If the default value is used, we require '
                        'that A.size[0]=A.size[1].',
                   'offsetA': 'nonnegative integer',
                   'offsetx': 'nonnegative integer',
                   'offsety': 'nonnegative integer',
                   'uplo': "'L' or 'U'",
                   'x': "'d' or 'z' matrix. Must have the same type as A.",
                   'y': "'d' or 'z' matrix. Must have the same type as A."},
          'sig': "hemv(A, x, y, uplo='L', alpha=1.0, beta=0.0, n=A.size[0], ldA=max(1,A.size[0]), incx=1, incy=1, "
                 'offsetA=0, offsetx=0, offsety=0)'},
 'her': {'args': {'A': "'d' or 'z' matrix. Must have the same type as x.",
                  'alpha': 'real number (int or float)',
                  'incx': 'nonzero integer',
                  'ldA': 'nonnegative integer. ldA >= max(1,n). If zero, the default value is used.',
                  'n': 'integer. If negative, the default value is used.',
                  'offsetA': 'nonnegative integer',
                  'offsetx': 'nonnegative integer',
                  'uplo': "'L' or 'U'",
                  'x': "'d' or 'z' matrix"},
         'sig': "her(x, A, uplo='L', alpha=1.0, n=A.size[0], incx=1, ldA=max(1,A.size[0]), offsetx=0, offsetA=0)"},
 'her2': {'args': {'A': "'d' or 'z' matrix. Must have the same type as x.",
                   'alpha': 'number (int, float or complex). Complex alpha is only allowed if A is complex.',
                   'incx': 'nonzero integer',
                   'incy': 'nonzero integer',
                   'ldA': 'nonnegative integer. ldA >= max(1,n). If zero the default value is used.',
                   'n': 'integer. If negative, the default value is used.',
                   'offsetA': 'nonnegative integer',
                   'offsetx': 'nonnegative integer',
                   'offsety': 'nonnegative integer',
                   'uplo': "'L' or 'U'",
                   'x': "'d' or 'z' matrix",
                   'y': "'d' or 'z' matrix. Must have the same type as x."},
          'sig': "her2(x, y, A, uplo='L', alpha=1.0, n=A.size[0], incx=1, incy=1, ldA=max(1,A.size[0]), offsetx=0, "
                 'offsety=0, offsetA=0)'},
 'her2k': {'args': {'A': "'d' or 'z' matrix",
                    'B': "'d' or 'z' matrix. Must have the same type as A.",
                    'C': "'d' or 'z' matrix. Must have the same type as A.",
                    'alpha': 'number (int, float or complex). Complex alpha is only allowed if A is complex.',
                    'beta': 'real number (int or float)',
                    'k': "integer. If negative, the default value is used. The default value is k = (trans == 'N') ? "
                         "A.size[1] : A.size[0]. If the default value is used, it should be equal to (trans == 'N') "
                         '? B.size[1] : B.size[0].',
                    'ldA': "nonnegative integer. ldA >= max(1, (trans=='N') ? n : k). If zero, the default value is "
                           'used.',
                    'ldB': "nonnegative integer. ldB >= max(1, (trans=='N') ? n : k). If zero, the default value is "
                           'used.',
                    'ldC': 'nonnegative integer. ldC >= max(1,n). If zero, the default value is used.',
                    'n': "integer. If negative, the default value is used. The default value is n = (trans == 'N') ? "
                         "A.size[0] : A.size[1]. If the default value is used, it should be equal to (trans == 'N') "
                         '? B.size[0] : B.size[1].',
                    'offsetA': 'nonnegative integer',
                    'offsetB': 'nonnegative integer',
                    'offsetC': 'nonnegative integer',
                    'trans': "'N' or 'C'",
                    'uplo': "'L' or 'U'"},
           'sig': "her2k(A, B, C, alpha=1.0, beta=0.0, uplo='L', trans='N', n=None, k=None, ldA=max(1,A.size[0]), "
                  'ldB=max(1,B.size[0]), ldC=max(1,C.size[0])), offsetA=0, offsetB=0, offsetC=0)'},
 'herk': {'args': {'A': "'d' or 'z' matrix",
                   'C': "'d' or 'z' matrix. Must have the same type as A.",
                   'alpha': 'real number (int or float)',
                   'beta': 'number (int, float or complex)',
                   'k': "integer. If negative, the default value is used. The default value is k = (trans == 'N') ? "
                        'A.size[1] : A.size[0].',
                   'ldA': "nonnegative integer. ldA >= max(1, (trans == 'N') ? n : k). If zero, the default value is "
                          'used.',
                   'ldC': 'nonnegative integer. ldC >= max(1,n). If zero, the default value is used.',
                   'n': 'integer. If negative, the default value is used. The default value is n = (trans == N) ? '
                        'A.size[0] : A.size[1].',
                   'offsetA': 'nonnegative integer',
                   'offsetC': 'nonnegative integer',
                   'trans': "'N' or 'C'",
                   'uplo': "'L' or 'U'"},
          'sig': "herk(A, C, uplo='L', trans='N', alpha=1.0, beta=0.0, n=None, k=None, ldA=max(1,A.size[0]), "
                 'ldC=max(1,C.size[0]), offsetA=0, offsetB=0)'},
 'iamax': {'args': {'inc': 'positive integer',
                    'n': 'integer. If n<0, the default value of n is used. The default value is equal to '
                         '(len(x)>=offset+1) ? 1+(len(x)-offset-1)/inc : 0.',
                    'offset': 'nonnegative integer',
                    'x': "'d' or 'z' matrix"},
           'sig': 'iamax(x, n=None, inc=1, offset=0)'},
 'nrm2': {'args': {'inc': 'positive integer',
                   'n': 'integer. If n<0, the default value of n is used. The default value is equal to '
                        '(len(x)>=offsetx+1) ? 1+(len(x)-offsetx-1)/incx : 0.',
                   'offset': 'nonnegative integer',
                   'x': "'d' or 'z' matrix"},
          'sig': 'nrm2(x, n=None, inc=1, offset=0)'},
 'sbmv': {'args': {'A': "'d' matrix",
                   'alpha': 'real number (int or float)',
                   'beta': 'real number (int or float)',
                   'incx': 'nonzero integer',
                   'incy': 'nonzero integer',
                   'k': 'integer. If negative, the default value is used. The default value is k = '
                        'max(0,A.size[0]-1).',
                   'ldA': 'nonnegative integer. ldA >= k+1. If zero, the default value is used.',
                   'n': 'integer. If negative, the default value is used.',
                   'offsetA': 'nonnegative integer',
                   'offsetx': 'nonnegative integer',
                   'offsety': 'nonnegative integer',
                   'uplo': "'L' or 'U'",
                   'x': "'d' matrix",
                   'y': "'d' matrix"},
          'sig': "sbmv(A, x, y, uplo='L', alpha=1.0, beta=0.0, n=A.size[1], k=None, ldA=A.size[0], incx=1, incy=1, "
                 'offsetA=0, offsetx=0, offsety=0)'},
 'scal': {'args': {'alpha': 'number (int, float or complex). Complex alpha is only allowed if x is complex.',
                   'inc': 'positive integer',
                   'n': 'integer. If n<0, the default value of n is used. The default value is equal to '
                        '(len(x)>=offset+1) ? 1+(len-offset-1)/inc : 0.',
                   'offset': 'nonnegative integer',
                   'x': "'d' or 'z' matrix"},
          'sig': 'scal(alpha, x, n=None, inc=1, offset=0)'},
 'swap': {'args': {'incx': 'nonzero integer',
                   'incy': 'nonzero integer',
                   'n': 'integer. If n<0, the default value of n is used. The default value is equal to '
                        'len(x)>=offsetx+1 ? 1+(len(x)-offsetx-1)/|incx| : 0. If the default value is used, it must '
                        'be equal to len(y)>=offsety+1 ? 1+(len(y)-offsetx-1)/|incy| : 0.',
                   'offsetx': 'nonnegative integer',
                   'offsety': 'nonnegative integer',
                   'x': "'d' or 'z' matrix",
                   'y': "'d' or 'z' matrix. Must have the same type as x."},
          'sig': 'swap(x, y, n=None, incx=1, incy=1, offsetx=0, offsety=0)'},
 'symm': {'args': {'A': "'d' or 'z' matrix",
                   'B': "'d' or 'z' matrix. Must have the same type as A.",
                   'C': "'d' or 'z' matrix. Must have the same type as A.",
                   'alpha': 'number (int, float or complex). Complex alpha is only allowed if A is complex.',
                   'beta': 'number (int, float or complex). Complex beta is only allowed if A is complex.',
                   'ldA': "nonnegative integer. ldA >= max(1, (side == 'L') ? m : n). If zero, the default value is "
                          'used.',
                   'ldB': "nonnegative integer. ldB >= max(1, (side == 'L') ? n : m). If zero, the default value is "
                          'used.',
                   'ldC': 'nonnegative integer. ldC >= max(1,m). If zero, the default value is used.',
                   'm': 'integer. If negative, the default value is used. If the default value is used and side = '
                        "'L', then m must be equal to A.size[0] and A.size[1].",
                   'n': 'integer. If negative, the default value is used. If the default value is used and side = '
                        "'R', then must be equal to A.size[0] and A.size[1].",
                   'offsetA': 'nonnegative integer',
                   'offsetB': 'nonnegative integer',
                   'offsetC': 'nonnegative integer',
                   'side': "'L' or 'R'",
                   'uplo': "'L' or 'U'"},
          'sig': "symm(A, B, C, side='L', uplo='L', alpha=1.0, beta=0.0, m=B.size[0], n=B.size[1], "
                 'ldA=max(1,A.size[0]), ldB=max(1,B.size[0]), ldC=max(1,C.size[0]), offsetA=0, offsetB=0, '
                 'offsetC=0)'},
 'symv': {'args': {'A': "'d' matrix",
                   'alpha': 'real number (int or float)',
                   'beta': 'real number (int or float)',
                   'incx': 'nonzero integer',
                   'incy': 'nonzero integer',
                   'ldA': 'nonnegative integer. ldA >= max(1,n). If zero, the default value is used.',
                   'n': 'integer. If negative, the default value is used. If the default value is used, we require '
                        'that A.size[0]=A.size[1].',
                   'offsetA': 'nonnegative integer',
                   'offsetx': 'nonnegative integer',
                   'offsety': 'nonnegative integer',
                   'uplo': "'L' or 'U'",
                   'x': "'d' matrix",
                   'y': "'d' matrix"},
          'sig': "symv(A, x, y, uplo='L', alpha=1.0, beta=0.0, n=A.size[0], ldA=max(1,A.size[0]), incx=1, incy=1, "
                 'offsetA=0, offsetx=0, offsety=0)'},
 'syr': {'args': {'A': "'d' matrix",
                  'alpha': 'real number (int or float)',
                  'incx': 'nonzero integer',
                  'ldA': 'nonnegative integer. ldA >= max(1,n). If zero, the default value is used.',
                  'n': 'integer. If negative, the default value is used.',
                  'offsetA': 'nonnegative integer',
                  'offsetx': 'nonnegative integer',
                  'uplo': "'L' or 'U'",
                  'x': "'d' matrix"},
         'sig': "syr(x, A, uplo='L', alpha=1.0, n=A.size[0], incx=1, ldA=max(1,A.size[0]), offsetx=0, offsetA=0)"},
 'syr2': {'args': {'A': "'d' matrix",
                   'alpha': 'real number (int or float)',
                   'incx': 'nonzero integer',
                   'incy': 'nonzero integer',
                   'ldA': 'nonnegative integer. ldA >= max(1,n). If zero the default value is used.',
                   'n': 'integer. If negative, the default value is used.',
                   'offsetA': 'nonnegative integer',
                   'offsetx': 'nonnegative integer',
                   'offsety': 'nonnegative integer',
                   'uplo': "'L' or 'U'",
                   'x': "'d' matrix",
                   'y': "'d' matrix"},
          'sig': "syr2(x, y, A, uplo='L', alpha=1.0, n=A.size[0], incx=1, incy=1, ldA=max(1,A.size[0]), offsetx=0, "
                 'offsety=0, offsetA=0)'},
 'syr2k': {'args': {'A': "'d' or 'z' matrix",
                    'B': "'d' or 'z' matrix. Must have the same type as A.",
                    'C': "'d' or 'z' matrix. Must have the same type as A.",
                    'alpha': 'number (int, float or complex). Complex alpha is only allowed if A is complex.',
                    'beta': 'number (int, float or complex). Complex beta is only allowed if A is complex.',
                    'k': "integer. If negative, the default value is used. The default value is k = (trans == 'N') ? "
                         "A.size[1] : A.size[0]. If the default value is used, it should be equal to (trans == 'N') "
                         '? B.size[1] : B.size[0].',
                    'ldA': "nonnegative integer. ldA >= max(1, (trans=='N') ? n : k). If zero, the default value is "
                           'used.',
                    'ldB': "nonnegative integer. ldB >= max(1, (trans=='N') ? n : k). If zero, the default value is "
                           'used.',
                    'ldC': 'nonnegative integer. ldC >= max(1,n). If zero, the default value is used.',
                    'n': "integer. If negative, the default value is used. The default value is n = (trans == 'N') ? "
                         "A.size[0] : A.size[1]. If the default value is used, it should be equal to (trans == 'N') "
                         '? B.size[0] : B.size[1].',
                    'offsetA': 'nonnegative integer',
                    'offsetB': 'nonnegative integer',
                    'offsetC': 'nonnegative integer',
                    'trans': "'N', 'T' or 'C' ('C' is only allowed when in the real case and means the same as 'T')",
                    'uplo': "'L' or 'U'"},
           'sig': "syr2k(A, B, C, uplo='L', trans='N', alpha=1.0, beta=0.0, n=None, k=None, ldA=max(1,A.size[0]), "
                  'ldB=max(1,B.size[0]), ldC=max(1,C.size[0])), offsetA=0, offsetB=0, offsetC=0)'},
 'syrk': {'args': {'A': "'d' or 'z' matrix",
                   'C': "'d' or 'z' matrix. Must have the same type as A.",
                   'alpha': 'number (int, float or complex). Complex alpha is only allowed if A is complex.',
                   'beta': 'number (int, float or complex). Complex beta is only allowed if A is complex.',
                   'k': "integer. If negative, the default value is used. The default value is k = (trans == 'N') ? "
                        'A.size[1] : A.size[0].',
                   'ldA': "nonnegative integer. ldA >= max(1, (trans == 'N') ? n : k). If zero, the default value is "
                          'used.',
                   'ldC': 'nonnegative integer. ldC >= max(1,n). If zero, the default value is used.',
                   'n': 'integer. If negative, the default value is used. The default value is n = (trans == N) ? '
                        'A.size[0] : A.size[1].',
                   'offsetA': 'nonnegative integer',
                   'offsetC': 'nonnegative integer',
                   'trans': "'N' or 'T'",
                   'uplo': "'L' or 'U'"},
          'sig': "syrk(A, C, uplo='L', trans='N', alpha=1.0, beta=0.0, n=None, k=None, ldA=max(1,A.size[0]), "
                 'ldC=max(1,C.size[0]), offsetA=0, offsetB=0)'},
 'tbmv': {'args': {'A': "'d' or 'z' matrix",
                   'diag': "'N' or 'U'",
                   'incx': 'nonzero integer',
                   'k': 'nonnegative integer. If negative, the default value is used.',
                   'ldA': 'nonnegative integer. lda >= 1+k. If zero the default value is used.',
                   'n': 'nonnegative integer. If negative, the default value is used.',
                   'offsetA': 'nonnegative integer',
                   'offsetx': 'nonnegative integer',
                   'trans': "'N', 'T' or 'C'",
                   'uplo': "'L' or 'U'",
                   'x': "'d' or 'z' matrix. Must have the same type as A."},
          'sig': "tbmv(A, x, uplo='L', trans='N', diag='N', n=A.size[1], k=max(0,A.size[0]-1), ldA=A.size[0], "
                 'incx=1, offsetA=0, offsetx=0)'},
 'tbsv': {'args': {'A': "'d' or 'z' matrix",
                   'diag': "'N' or 'U'",
                   'incx': 'nonzero integer',
                   'k': 'nonnegative integer. If negative, the default value is used.',
                   'ldA': 'nonnegative integer. ldA >= 1+k. If zero the default value is used.',
                   'n': 'nonnegative integer. If negative, the default value is used.',
                   'offsetA': 'nonnegative integer',
                   'offsetx': 'nonnegative integer',
                   'trans': "'N', 'T' or 'C'",
                   'uplo': "'L' or 'U'",
                   'x': "'d' or 'z' matrix. Must have the same type as A."},
          'sig': "tbsv(A, x, uplo='L', trans='N', diag='N', n=A.size[1], k=max(0,A.size[0]-1), ldA=A.size[0], "
                 'incx=1, offsetA=0, offsetx=0)'},
 'trmm': {'args': {'A': "'d' or 'z' matrix",
                   'B': "'d' or 'z' matrix. Must have the same type as A.",
                   'alpha': 'number (int, float or complex). Complex alpha is only allowed if A is complex.',
                   'diag': "'N' or 'U'",
                   'ldA': "nonnegative integer. ldA >= max(1, (side == 'L') ? m : n). If zero, the default value is "
                          'used.',
                   'ldB': 'nonnegative integer. ldB >= max(1,m). If zero, the default value is used.',
                   'm': "integer. If negative, the default value is used. The default value is m = (side == 'L') ? "
                        "A.size[0] : B.size[0]. If the default value is used and side is 'L', m must be equal to "
                        'A.size[1].',
                   'n': "integer. If negative, the default value is used. The default value is n = (side == 'L') ? "
                        "B.size[1] : A.size[0]. If the default value is used and side is 'R', n must be equal to "
                        'A.size[1].',
                   'offsetA': 'nonnegative integer',
                   'offsetB': 'nonnegative integer',
                   'side': "'L' or 'R'",
                   'transA': "'N' or 'T'",
                   'uplo': "'L' or 'U'"},
          'sig': "trmm(A, B, side='L', uplo='L', transA='N', diag='N', alpha=1.0, m=None, n=None, "
                 'ldA=max(1,A.size[0]), ldB=max(1,B.size[0]), offsetA=0, offsetB=0)'},
 'trmv': {'args': {'A': "'d' or 'z' matrix",
                   'diag': "'N' or 'U'",
                   'incx': 'nonzero integer',
                   'ldA': 'nonnegative integer. ldA >= max(1,n). If zero the default value is used.',
                   'n': 'integer. If negative, the default value is used. If the default value is used, we require '
                        'that A.size[0] = A.size[1].',
                   'offsetA': 'nonnegative integer',
                   'offsetx': 'nonnegative integer',
                   'trans': "'N' or 'T'",
                   'uplo': "'L' or 'U'",
                   'x': "'d' or 'z' matrix. Must have the same type as A."},
          'sig': "trmv(A, x, uplo='L', trans='N', diag='N', n=A.size[0], ldA=max(1,A.size[0]), incx=1, offsetA=0, "
                 'offsetx=0)'},
 'trsm': {'args': {'A': "'d' or 'z' matrix",
                   'B': "'d' or 'z' matrix. Must have the same type as A.",
                   'alpha': 'number (int, float or complex). Complex alpha is only allowed if A is complex.',
                   'diag': "'N' or 'U'",
                   'ldA': "nonnegative integer. ldA >= max(1, (side == 'L') ? m : n). If zero, the default value is "
                          'used.',
                   'ldB': 'nonnegative integer. ldB >= max(1,m). If zero, the default value is used.',
                   'm': "integer. If negative, the default value is used. The default value is m = (side == 'L') ? "
                        "A.size[0] : B.size[0]. If the default value is used and side is 'L', m must be equal to "
                        'A.size[1].',
                   'n': "integer. If negative, the default value is used. The default value is n = (side == 'L') ? "
                        "B.size[1] : A.size[0]. If the default value is used and side is 'R', n must be equal to "
                        'A.size[1].',
                   'offsetA': 'nonnegative integer',
                   'offsetB': 'nonnegative integer',
                   'side': "'L' or 'R'",
                   'transA': "'N' or 'T'",
                   'uplo': "'L' or 'U'"},
          'sig': "trsm(A, B, side='L', uplo='L', transA='N', diag='N', alpha=1.0, m=None, n=None, "
                 'ldA=max(1,A.size[0]), ldB=max(1,B.size[0]), offsetA=0, offsetB=0)'},
 'trsv': {'args': {'A': "'d' or 'z' matrix",
                   'diag': "'N' or 'U'",
                   'incx': 'nonzero integer',
                   'ldA': 'nonnegative integer. ldA >= max(1,n). If zero, the default value is used.',
                   'n': 'integer. If negative, the default value is used. If the default value is used, we require '
                        'that A.size[0] = A.size[1].',
                   'offsetA': 'nonnegative integer',
                   'offsetx': 'nonnegative integer',
                   'trans': "'N', 'T' or 'C'",
                   'uplo': "'L' or 'U'",
                   'x': "'d' or 'z' matrix. Must have the same type as A."},
          'sig': "trsv(A, x, uplo='L', trans='N', diag='N', n=A.size[0], ldA=max(1,A.size[0]), incx=1, offsetA=0, "
                 'offsetx=0)'}}


# =====================================================================================================
#                    MODEL: what the documentation says a given call must do
# =====================================================================================================
class Shape(object):
    __slots__ = ('r', 'c', 'len')

    def __init__(self, r, c):
        self.r, self.c, self.len = r, c, r * c


_CODE = {}
_GLOB = {'max': max, 'min': min, 'abs': abs, '__builtins__': {}}
FLAG_DEFAULT = {'trans': 'N', 'transA': 'N', 'transB': 'N', 'uplo': 'L', 'diag': 'N', 'side': 'L'}


def _ev(expr, env):
    c = _CODE.get(expr)
    if c is None:
        c = _CODE[expr] = compile(expr, '<spec:%s>' % expr, 'eval')
    return eval(c, _GLOB, env)


def predict(f, tcs, shapes, kw):
    """Decide what the documentation demands of the call  f(**matrices, **kw).

    tcs     {matrix argument: typecode 'd'/'z'/'i' or None for a non-matrix object}
    shapes  {matrix argument: (rows, cols)}
    kw      the keyword arguments given (flags, scalars, integers); omitted arguments are absent

    returns dict(verdict=..., why=[...], env=effective arguments, ext={matrix: minimum buffer length},
                 vacuous=bool, defaulted=[names])
      verdict 'ok'      the call is valid: it must compute the operation
              'reject'  the call violates a documented requirement and addresses data: TypeError/ValueError
              'either'  a requirement is violated but no element is addressed (zero dimension): the call may raise
                        TypeError/ValueError or return; nothing may change
              'skip'    the documentation does not say (the call is not made)
    """
    sp = SPEC[f]
    why, skip = [], []
    tset = set(tcs.values())
    tc = None
    if len(tset) == 1 and isinstance(list(tset)[0], str) and list(tset)[0] in sp['types']:
        tc = list(tset)[0]
    else:
        why.append('type')
    env = dict((m, Shape(*shapes[m])) for m in sp['mats'])
    # ---- flags
    for name in sp['flags']:
        v = kw.get(name, FLAG_DEFAULT[name])
        dom = flag_domain(f, name, tc) if tc else ''.join(sorted(set(''.join(flag_domain(f, name, t) for t in sp['types']))))
        if not (isinstance(v, str) and len(v) == 1 and v in dom):
            # an invalid option: judge the call with every valid substitute
            subs = [predict(f, tcs, shapes, dict(kw, **{name: s})) for s in dom]
            if all(s['verdict'] in ('ok', 'reject') and not s['vacuous'] for s in subs):
                verdict = 'reject'
            elif any(s['verdict'] == 'skip' for s in subs):
                verdict = 'skip'
            else:
                verdict = 'either'
            return dict(verdict=verdict, why=['flag:' + name], env=None, ext=None, vacuous=None, defaulted=[])
        env[name] = v
    # ---- integers
    defaulted = []
    unresolved = False
    for (name, cls, default, _) in sp['ints']:
        given = name in kw
        v = kw.get(name)
        if given and (not isinstance(v, int) or isinstance(v, bool)):
            return dict(verdict='skip', why=['non-integer ' + name], env=None, ext=None, vacuous=None, defaulted=[])
        if cls == 'nnreq':
            if v < 0:
                why.append('domain:' + name)
        elif cls == 'int':
            if not given or v < 0:
                try:
                    v = _ev(default, env)
                except ZeroDivisionError:
                    unresolved = True
                    v = 0
                defaulted.append(name)
        elif cls == 'ld':
            if not given or v == 0:
                v = _ev(default, env)
                defaulted.append(name)
            elif v < 0:
                why.append('domain:' + name)
        elif cls == 'nz':
            if not given:
                v = 1
            elif v == 0:
                why.append('domain:' + name)
        elif cls == 'pos':
            if not given:
                v = 1
            elif v <= 0:
                why.append('domain:' + name)
        elif cls == 'nn':
            if not given:
                v = 0
            elif v < 0:
                why.append('domain:' + name)
        env[name] = v
    if unresolved:
        return dict(verdict='either', why=why + ['default not computable'], env=None, ext=None, vacuous=None,
                    defaulted=defaulted)
    if f == 'gbmv' and env['ku'] < 0:
        why.append('domain:ku')
    # ---- conditions attached to defaults
    for (arg, cond, kind) in sp['require']:
        if arg in defaulted and not _ev(cond, env):
            (why if kind == 'doc' else skip).append('require:' + arg)
    # ---- addressed arrays
    dims = {}
    for m, a in sp['arrays'].items():
        if a[0] == 'V':
            dims[m] = (max(0, _ev(a[1], env)),)
        else:
            dims[m] = (max(0, _ev(a[1], env)), max(0, _ev(a[2], env)))
    empty = dict((m, min(d) == 0) for m, d in dims.items())
    vacuous = bool(sp['out']) and sp['ret'] is None and all(empty[m] for m in sp['out'])
    ext = {}
    for m, a in sp['arrays'].items():
        if vacuous or empty[m]:
            ext[m] = 0
        elif a[0] == 'V':
            ext[m] = vextent(dims[m][0], env[a[2]] or 1, env[a[3]])
        else:
            ext[m] = mextent(dims[m][0], dims[m][1], env[a[3]], env[a[4]])
    for m, a in sp['arrays'].items():
        if a[0] == 'M':
            ld = a[3]
            if env[ld] >= 0 and env[ld] < _ev(sp['ldmin'][ld], env):
                if vacuous or empty[m]:
                    skip.append('ld-of-empty-array:' + ld)
                else:
                    why.append('ld:' + ld)
        if ext[m] > env[m].len:
            why.append('buffer:' + m)
    # ---- scalars
    for name, cls in sp['scalars'].items():
        if name in kw:
            v = kw[name]
            if isinstance(v, bool) or not isinstance(v, (int, float, complex)):
                why.append('scalar-type:' + name)
            elif isinstance(v, complex) and (cls == 'real' or tc == 'd'):
                why.append('scalar-complex:' + name)
    if why:
        verdict = 'either' if vacuous else 'reject'
    elif skip:
        verdict = 'skip'
    else:
        verdict = 'ok'
    return dict(verdict=verdict, why=why + skip, env=env, ext=ext, vacuous=vacuous, defaulted=defaulted, dims=dims,
                tc=tc)


def herm_out_diag(f, env):
    """buffer positions (in the output argument) of the diagonal of a Hermitian in/out matrix, whose imaginary
    parts must be zero for the stored data to represent a Hermitian matrix."""
    if f in ('her', 'her2'):
        return 'A', [env['offsetA'] + i * (env['ldA'] + 1) for i in range(env['n'])]
    if f in ('herk', 'her2k'):
        return 'C', [env['offsetC'] + i * (env['ldC'] + 1) for i in range(env['n'])]
    return None, []


def apply(f, env, kw, bufs):
    """Run the reference kernel of a valid call.  bufs {matrix: list} are copied.
    -> (return value, {matrix: new list}, {matrix: set of indices the call may write})"""
    sp = SPEC[f]
    new = dict((m, list(b)) for m, b in bufs.items())
    args = []
    for a in sp['kernel']:
        if a in new:
            args.append(new[a])
        elif a == 'alpha':
            args.append(kw.get('alpha', 1.0))
        elif a == 'beta':
            args.append(kw.get('beta', 0.0))
        else:
            args.append(env[a])
    r = globals()[f](*args)
    if f == 'swap':
        return None, new, {'x': r[0], 'y': r[1]}
    if sp['ret'] is not None:
        return r, new, {}
    return None, new, {sp['out'][0]: r}


# =====================================================================================================
#                       FOOTPRINTS: buffer indices read / written by a valid call
# =====================================================================================================
# storage scheme of every matrix-kind ('M') array: ge general, sy symmetric/Hermitian triangle, tr triangular,
# gb general band, sb symmetric/Hermitian band, tb triangular band
STORAGE = {
    'gemv': {'A': 'ge'}, 'gbmv': {'A': 'gb'}, 'symv': {'A': 'sy'}, 'hemv': {'A': 'sy'}, 'sbmv': {'A': 'sb'},
    'hbmv': {'A': 'sb'}, 'trmv': {'A': 'tr'}, 'trsv': {'A': 'tr'}, 'tbmv': {'A': 'tb'}, 'tbsv': {'A': 'tb'},
    'ger': {'A': 'ge'}, 'geru': {'A': 'ge'}, 'syr': {'A': 'sy'}, 'her': {'A': 'sy'}, 'syr2': {'A': 'sy'},
    'her2': {'A': 'sy'}, 'gemm': {'A': 'ge', 'B': 'ge', 'C': 'ge'}, 'symm': {'A': 'sy', 'B': 'ge', 'C': 'ge'},
    'hemm': {'A': 'sy', 'B': 'ge', 'C': 'ge'}, 'syrk': {'A': 'ge', 'C': 'sy'}, 'herk': {'A': 'ge', 'C': 'sy'},
    'syr2k': {'A': 'ge', 'B': 'ge', 'C': 'sy'}, 'her2k': {'A': 'ge', 'B': 'ge', 'C': 'sy'},
    'trmm': {'A': 'tr', 'B': 'ge'}, 'trsm': {'A': 'tr', 'B': 'ge'},
}


def footprint(f, env):
    """{'read': {arg: set(indices)}, 'write': {arg: set(indices)}} of a *valid* call with effective arguments env
    (as returned by predict()['env']).  'read' lists the positions whose value can influence the result (with
    generic scalars; e.g. C is listed as read although beta=0 makes it irrelevant)."""
    sp = SPEC[f]
    cells = {}
    for m, a in sp['arrays'].items():
        if a[0] == 'V':
            cells[m] = set(vidx(max(0, _ev(a[1], env)), env[a[2]], env[a[3]]))
            continue
        rows, cols, ld, off = max(0, _ev(a[1], env)), max(0, _ev(a[2], env)), env[a[3]], env[a[4]]
        kind = STORAGE[f][m]
        if rows == 0 or cols == 0:
            cells[m] = set()
        elif kind == 'ge':
            cells[m] = ge_idx(rows, cols, ld, off)
        elif kind in ('sy', 'tr'):
            s = tri_idx(cols, ld, off, env['uplo'])
            if kind == 'tr' and env.get('diag') == 'U':
                s -= set(off + i * (ld + 1) for i in range(cols))
            cells[m] = s
        elif kind == 'gb':
            mm, kl, ku = env['m'], env['kl'], env['ku']
            cells[m] = set(off + (ku + i - j) + j * ld for j in range(cols)
                           for i in range(max(0, j - ku), min(mm - 1, j + kl) + 1))
        else:
            k, n, uplo = env['k'], cols, env['uplo']
            s = set()
            for j in range(n):
                rng = range(j, min(n - 1, j + k) + 1) if uplo == 'L' else range(max(0, j - k), j + 1)
                for i in rng:
                    if not (kind == 'tb' and env.get('diag') == 'U' and i == j):
                        s.add(_band_pos(i, j, k, ld, off, uplo))
            cells[m] = s
    vac = bool(sp['out']) and sp['ret'] is None and all(not cells[m] for m in sp['out'])
    if vac:
        return {'read': dict((m, set()) for m in sp['mats']), 'write': dict((m, set()) for m in sp['mats'])}
    write = dict((m, (cells[m] if m in sp['out'] else set())) for m in sp['mats'])
    read = dict(cells)
    if f == 'copy':
        read['y'] = set()
    return {'read': read, 'write': write}
