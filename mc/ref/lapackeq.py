"""Defining-equation oracles for the LAPACK wrappers (property C18).

Plain Python only: matrices are `Mat` objects (list of rows of float/complex), exact classification of the
integer test matrices is done with Python integers (Gaussian integers as (re, im) pairs).  Nothing here
re-implements a LAPACK algorithm: every function measures how well a *returned* result satisfies the equation
that defines it (residual, reconstruction, orthonormality, ordering).  All errors are returned as relative
numbers (0 = exact, inf = structurally wrong); the caller compares them with TOL.
"""
import math

TOL = 1e-9          # inputs are small integers: observed errors are < 1e-13, real defects are O(1)
INF = float('inf')


# ----------------------------------------------------------------------------------------------- matrices
class Mat(object):
    __slots__ = ('m', 'n', 'a')

    def __init__(self, m, n, a=None):
        self.m, self.n = m, n
        self.a = a if a is not None else [[0.0] * n for _ in range(m)]

    @staticmethod
    def rows(rows, n=None):
        rows = [list(r) for r in rows]
        return Mat(len(rows), (len(rows[0]) if rows else (n or 0)) if n is None else n, rows)

    @staticmethod
    def colmajor(flat, m, n, ld=None, off=0):
        ld = m if ld is None else ld
        return Mat(m, n, [[flat[off + j * ld + i] for j in range(n)] for i in range(m)])

    @staticmethod
    def eye(n):
        return Mat(n, n, [[1.0 if i == j else 0.0 for j in range(n)] for i in range(n)])

    @staticmethod
    def diag(d):
        n = len(d)
        return Mat(n, n, [[d[i] if i == j else 0.0 for j in range(n)] for i in range(n)])

    def flat(self):
        """column-major list"""
        return [self.a[i][j] for j in range(self.n) for i in range(self.m)]

    def copy(self):
        return Mat(self.m, self.n, [list(r) for r in self.a])

    def T(self):
        return Mat(self.n, self.m, [[self.a[i][j] for i in range(self.m)] for j in range(self.n)])

    def conj(self):
        return Mat(self.m, self.n, [[_cj(x) for x in r] for r in self.a])

    def H(self):
        return Mat(self.n, self.m, [[_cj(self.a[i][j]) for i in range(self.m)] for j in range(self.n)])

    def op(self, trans):
        return self if trans == 'N' else (self.T() if trans == 'T' else self.H())

    def __matmul__(self, o):
        assert self.n == o.m, 'shape mismatch %dx%d @ %dx%d' % (self.m, self.n, o.m, o.n)
        oc = [[o.a[k][j] for k in range(o.m)] for j in range(o.n)]
        return Mat(self.m, o.n, [[_dot(r, c) for c in oc] for r in self.a])

    def __sub__(self, o):
        assert (self.m, self.n) == (o.m, o.n)
        return Mat(self.m, self.n, [[x - y for x, y in zip(r, s)] for r, s in zip(self.a, o.a)])

    def __add__(self, o):
        assert (self.m, self.n) == (o.m, o.n)
        return Mat(self.m, self.n, [[x + y for x, y in zip(r, s)] for r, s in zip(self.a, o.a)])

    def scale(self, s):
        return Mat(self.m, self.n, [[x * s for x in r] for r in self.a])

    def sub(self, r0, r1, c0, c1):
        return Mat(r1 - r0, c1 - c0, [list(self.a[i][c0:c1]) for i in range(r0, r1)])

    def cols(self, idx):
        return Mat(self.m, len(idx), [[r[j] for j in idx] for r in self.a])

    def nrm(self):
        """Frobenius norm (nan/inf propagate to inf so that a comparison fails)."""
        s = 0.0
        for r in self.a:
            for x in r:
                t = abs(x)
                if t != t or t == INF:
                    return INF
                s += t * t
        return math.sqrt(s)

    def maxabs(self):
        return max([abs(x) for r in self.a for x in r] or [0.0])

    def tolist(self):
        return [list(r) for r in self.a]


def _cj(x):
    return x.conjugate() if isinstance(x, complex) else x


def _dot(r, c):
    s = 0.0
    for x, y in zip(r, c):
        s += x * y
    return s


def rel(num, den):
    if num != num or num == INF:
        return INF
    if num == 0.0:
        return 0.0
    if den == 0.0 or den != den:
        return INF
    return num / den


def diff(A, B, scale=None):
    """||A - B||_F relative to `scale` (default max(||B||, tiny))."""
    if (A.m, A.n) != (B.m, B.n):
        return INF
    return rel((A - B).nrm(), B.nrm() if scale is None else scale)


# ------------------------------------------------------------------------------------ structured storage
def triangle(F, uplo, unit=False):
    """the uplo triangle of square F, zeros elsewhere (unit diagonal if `unit`)."""
    n = F.n
    R = Mat(n, n)
    for i in range(n):
        for j in range(n):
            if i == j:
                R.a[i][j] = 1.0 if unit else F.a[i][j]
            elif (uplo == 'L' and i > j) or (uplo == 'U' and i < j):
                R.a[i][j] = F.a[i][j]
    return R


def symm_from(F, uplo, herm):
    """full symmetric / Hermitian matrix defined by the uplo triangle of F."""
    n = F.n
    R = Mat(n, n)
    for i in range(n):
        for j in range(n):
            if i == j:
                R.a[i][j] = F.a[i][j]
            elif (uplo == 'L') == (i > j):
                R.a[i][j] = F.a[i][j]
            else:
                R.a[i][j] = _cj(F.a[j][i]) if herm else F.a[j][i]
    return R


def gb_pack(A, kl, ku, lead=0, fill=0.0):
    """dense m x n -> general band storage with `lead` extra rows on top: (lead+kl+ku+1) x n."""
    m, n = A.m, A.n
    R = Mat(lead + kl + ku + 1, n, [[fill(i, j) if callable(fill) else fill for j in range(n)]
                                    for i in range(lead + kl + ku + 1)])
    for j in range(n):
        for i in range(max(0, j - ku), min(m, j + kl + 1)):
            R.a[lead + ku + i - j][j] = A.a[i][j]
    return R


def band_mask(A, kl, ku):
    R = Mat(A.m, A.n)
    for i in range(A.m):
        for j in range(A.n):
            if -ku <= i - j <= kl:
                R.a[i][j] = A.a[i][j]
    return R


def sb_pack(A, kd, uplo, fill=0.0):
    """Hermitian/symmetric/triangular band, BLAS storage ((kd+1) x n)."""
    n = A.n
    R = Mat(kd + 1, n, [[fill(i, j) if callable(fill) else fill for j in range(n)] for i in range(kd + 1)])
    for j in range(n):
        if uplo == 'L':
            for i in range(j, min(n, j + kd + 1)):
                R.a[i - j][j] = A.a[i][j]
        else:
            for i in range(max(0, j - kd), j + 1):
                R.a[kd + i - j][j] = A.a[i][j]
    return R


def sb_unpack_tri(AB, n, kd, uplo):
    """triangular band storage -> dense triangular n x n."""
    R = Mat(n, n)
    for j in range(n):
        if uplo == 'L':
            for i in range(j, min(n, j + kd + 1)):
                R.a[i][j] = AB.a[i - j][j]
        else:
            for i in range(max(0, j - kd), j + 1):
                R.a[i][j] = AB.a[kd + i - j][j]
    return R


def tridiag(dl, d, du):
    n = len(d)
    R = Mat(n, n)
    for i in range(n):
        R.a[i][i] = d[i]
        if i + 1 < n:
            R.a[i + 1][i] = dl[i]
            R.a[i][i + 1] = du[i]
    return R


# ------------------------------------------------------------------------------------------ the equations
def resid(A, X, B):
    """relative residual of A X = B : ||A X - B|| / (||A|| ||X|| + ||B||)."""
    if A.n != X.m or (A.m, X.n) != (B.m, B.n):
        return INF
    return rel((A @ X - B).nrm(), A.nrm() * X.nrm() + B.nrm())


def orth_cols(Q):
    """|| Q^H Q - I ||_F"""
    return (Q.H() @ Q - Mat.eye(Q.n)).nrm()


def orth_rows(Q):
    return (Q @ Q.H() - Mat.eye(Q.m)).nrm()


def inverse_err(A, Ainv):
    return rel((A @ Ainv - Mat.eye(A.n)).nrm(), A.nrm() * Ainv.nrm())


def lu_err(F, ipiv, A0):
    """getrf: rows i <-> ipiv[i]-1 applied in order to A0 give L U, with L unit lower (m x k), U upper (k x n)."""
    m, n = A0.m, A0.n
    k = min(m, n)
    for p in ipiv[:k]:
        if not (isinstance(p, int) and 1 <= p <= m):
            return INF
    L = Mat(m, k)
    U = Mat(k, n)
    for i in range(m):
        for j in range(k):
            L.a[i][j] = 1.0 if i == j else (F.a[i][j] if i > j else 0.0)
    for i in range(k):
        for j in range(n):
            U.a[i][j] = F.a[i][j] if i <= j else 0.0
    PA = A0.copy()
    for i in range(k):
        p = ipiv[i] - 1
        if p < i:
            return INF          # partial pivoting never looks back
        PA.a[i], PA.a[p] = PA.a[p], PA.a[i]
    return rel((L @ U - PA).nrm(), A0.nrm() if A0.nrm() else 1.0)


def chol_err(F, Afull, uplo):
    """potrf: L L^H = A (uplo 'L', L in the lower triangle) or U^H U = A (uplo 'U')."""
    T = triangle(F, uplo)
    P = T @ T.H() if uplo == 'L' else T.H() @ T
    return rel((P - Afull).nrm(), Afull.nrm())


def ldl_tridiag_err(d, e, Afull):
    """pttrf: A = L D L^H with L unit lower bidiagonal (subdiagonal e)."""
    n = len(d)
    L = Mat.eye(n)
    for i in range(n - 1):
        L.a[i + 1][i] = e[i]
    return rel((L @ Mat.diag(list(d)) @ L.H() - Afull).nrm(), Afull.nrm())


def is_upper(R, scale, sub=0):
    """largest |entry| below the `sub`-th subdiagonal, relative to scale (0 = upper triangular/trapezoidal)."""
    t = 0.0
    for i in range(R.m):
        for j in range(R.n):
            if i - j > sub:
                t = max(t, abs(R.a[i][j]))
    return rel(t, scale)


def upper_part(R):
    S = Mat(R.m, R.n)
    for i in range(R.m):
        for j in range(i, R.n):
            S.a[i][j] = R.a[i][j]
    return S


def lower_part(R):
    S = Mat(R.m, R.n)
    for i in range(R.m):
        for j in range(0, min(i + 1, R.n)):
            S.a[i][j] = R.a[i][j]
    return S


def ascending(w, scale):
    """0 if w is non-decreasing (up to TOL*scale), else inf"""
    for i in range(len(w) - 1):
        if not w[i] <= w[i + 1] + TOL * max(1.0, scale):
            return INF
    return 0.0


def descending_nonneg(s, scale):
    for i in range(len(s)):
        if not s[i] >= -TOL * max(1.0, scale):
            return INF
        if i + 1 < len(s) and not s[i] + TOL * max(1.0, scale) >= s[i + 1]:
            return INF
    return 0.0


def eig_err(A, V, w):
    """A V = V diag(w) and V^H V = I  (V may hold a subset of the eigenvectors: n x k)."""
    if V.m != A.n or V.n != len(w):
        return INF
    e1 = rel((A @ V - V @ Mat.diag(list(w))).nrm(), max(A.nrm(), 1.0) * max(V.nrm(), 1.0))
    return max(e1, orth_cols(V))


def svd_err(A, U, s, Vt):
    """A = U diag(s) Vt with U (m x k) orthonormal columns, Vt (k x n) orthonormal rows."""
    k = len(s)
    if U.m != A.m or U.n != k or Vt.m != k or Vt.n != A.n:
        return INF
    e1 = rel((U @ Mat.diag(list(s)) @ Vt - A).nrm(), max(A.nrm(), 1.0))
    return max(e1, orth_cols(U), orth_rows(Vt))


def schur_err(A, Z, T):
    """A = Z T Z^H, Z unitary"""
    e1 = rel((Z @ T @ Z.H() - A).nrm(), max(A.nrm(), 1.0))
    return max(e1, orth_cols(Z))


def quasi_blocks(T, scale):
    """Block structure of a real upper quasi-triangular matrix: list of (start, size) with size 1 or 2, or None
    if T is not quasi-triangular (an entry below the first subdiagonal, or two consecutive subdiagonal entries)."""
    n = T.n
    if is_upper(T, scale, sub=1) > TOL:
        return None
    blocks, i = [], 0
    while i < n:
        if i + 1 < n and abs(T.a[i + 1][i]) > TOL * max(1.0, scale):
            if i + 2 < n and abs(T.a[i + 2][i + 1]) > TOL * max(1.0, scale):
                return None
            blocks.append((i, 2)); i += 2
        else:
            blocks.append((i, 1)); i += 1
    return blocks


def block_eig_err(S, T, i, size, alpha, beta, scale):
    """|det(beta * S_blk - alpha * T_blk)| relative: (alpha, beta) is an eigenvalue pair of the diagonal block
    (T = None means the identity: ordinary eigenvalue alpha/beta with beta = 1)."""
    def t(r, c):
        return (1.0 if r == c else 0.0) if T is None else T.a[i + r][i + c]
    if size == 1:
        return rel(abs(beta * S.a[i][i] - alpha * t(0, 0)), scale)
    m = [[beta * S.a[i + r][i + c] - alpha * t(r, c) for c in range(2)] for r in range(2)]
    return rel(abs(m[0][0] * m[1][1] - m[0][1] * m[1][0]), scale * scale)


# ----------------------------------------------------- tiny dense solver (used only for least-norm / itype 3)
def solve_small(A, B):
    """Gaussian elimination with partial pivoting in floating point (orders <= 4, well conditioned inputs);
    returns X with A X = B or None if a pivot vanishes."""
    n = A.n
    M = [list(A.a[i]) + list(B.a[i]) for i in range(n)]
    for c in range(n):
        p = max(range(c, n), key=lambda r: abs(M[r][c]))
        if abs(M[p][c]) == 0.0:
            return None
        M[c], M[p] = M[p], M[c]
        for r in range(n):
            if r != c:
                f = M[r][c] / M[c][c]
                if f != 0:
                    M[r] = [x - f * y for x, y in zip(M[r], M[c])]
    return Mat(n, B.n, [[M[i][n + j] / M[i][i] for j in range(B.n)] for i in range(n)])


def lstsq_err(A, X, B):
    """X minimises ||A X - B||_F  <=>  A^H (A X - B) = 0   (A: m x n, m >= n, full column rank)."""
    if X.m != A.n or B.m != A.m or X.n != B.n:
        return INF
    R = A @ X - B
    return rel((A.H() @ R).nrm(), A.nrm() * (A.nrm() * X.nrm() + B.nrm()))


def minnorm_err(A, X, B):
    """X is the minimum-norm solution of A X = B (A: m x n, m <= n, full row rank)
    <=>  A X = B  and  X = A^H Y for some Y  (Y is obtained from (A A^H) Y = B)."""
    if X.m != A.n or B.m != A.m or X.n != B.n:
        return INF
    e1 = resid(A, X, B)
    Y = solve_small(A @ A.H(), B)
    if Y is None:
        return INF
    e2 = rel((A.H() @ Y - X).nrm(), max(1.0, X.nrm()) * max(1.0, A.nrm()) ** 2)
    return max(e1, e2)


# ------------------------------------------------------------------ exact classification of integer matrices
def _gi(x):
    """number -> Gaussian integer (re, im) as Python ints; raises if not integral."""
    if isinstance(x, complex):
        r, i = x.real, x.imag
    else:
        r, i = float(x), 0.0
    assert r == int(r) and i == int(i), 'pool matrices must have integer entries'
    return (int(r), int(i))


def _gmul(a, b):
    return (a[0] * b[0] - a[1] * b[1], a[0] * b[1] + a[1] * b[0])


def _gsub(a, b):
    return (a[0] - b[0], a[1] - b[1])


def rank_exact(A):
    """rank of an integer / Gaussian-integer matrix by fraction-free elimination on Python ints."""
    M = [[_gi(x) for x in r] for r in A.a]
    rank, rows = 0, A.m
    for c in range(A.n):
        p = None
        for r in range(rank, rows):
            if M[r][c] != (0, 0):
                p = r
                break
        if p is None:
            continue
        M[rank], M[p] = M[p], M[rank]
        pv = M[rank][c]
        for r in range(rank + 1, rows):
            f = M[r][c]
            if f != (0, 0):
                M[r] = [_gsub(_gmul(pv, x), _gmul(f, y)) for x, y in zip(M[r], M[rank])]
        rank += 1
        if rank == rows:
            break
    return rank


def det_exact(A):
    """determinant (Gaussian integer) by cofactor expansion, orders <= 4."""
    M = [[_gi(x) for x in r] for r in A.a]

    def det(rows, cols):
        if not rows:
            return (1, 0)
        r0 = rows[0]
        s = (0, 0)
        for k, c in enumerate(cols):
            if M[r0][c] == (0, 0):
                continue
            t = _gmul(M[r0][c], det(rows[1:], cols[:k] + cols[k + 1:]))
            s = (s[0] + t[0], s[1] + t[1]) if k % 2 == 0 else _gsub(s, t)
        return s
    return det(list(range(A.n)), list(range(A.n)))


def is_singular(A):
    return A.n > 0 and rank_exact(A) < A.n


def dyadic_safe(A):
    """every entry is 0 or (+-1, +-2, +-4) times (1 or i): every multiplier a/p formed during elimination of an
    order-2 matrix of such entries is exact in binary floating point, so an exactly singular matrix produces an
    exactly zero pivot (which is the only thing LAPACK reports)."""
    ok = (0, 1, 2, 4)
    for r in A.a:
        for x in r:
            g = _gi(x)
            if abs(g[0]) not in ok or abs(g[1]) not in ok or (g[0] != 0 and g[1] != 0):
                return False
    return True


def chol_class(Afull):
    """'pd' : all leading principal minors > 0
       'notpd' : the first non-positive leading minor is negative (a pivot is negative by an integer margin:
                 every Cholesky variant must stop)
       'boundary' : the first non-positive minor is exactly zero (positive semidefinite up to there; whether a
                 floating-point Cholesky sees an exact zero depends on rounding of earlier square roots)."""
    for k in range(1, Afull.n + 1):
        d = det_exact(Afull.sub(0, k, 0, k))
        assert d[1] == 0, 'Hermitian matrix expected'
        if d[0] < 0:
            return 'notpd'
        if d[0] == 0:
            return 'boundary'
    return 'pd'
