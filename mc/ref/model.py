"""Plain-Python reference evaluator for cvxopt.modeling expression trees (property C11).

Everything here is derived from /repo/doc/source/modeling.rst (plus the arithmetic and indexing
sections of matrices.rst that it refers to).  No cvxopt import.  Numbers are fractions.Fraction, so
values are exact for integer / dyadic data.

A tree is a JSON-able list:

  ['var', name]                       a variable (lengths in VARLEN: x=1, y=2, z=3)
  ['const', kind, [r, c], data]       kind: 'int' | 'float' | 'dense' | 'sparse'; data column-major
  ['pos', a] ['neg', a] ['sum', a] ['abs', a] ['max1', a] ['min1', a]
  ['index', a, idx]                   idx: ['int', k] | ['list', [..]] | ['imat', [..]] | ['slice', a, b, c]
  ['mul', c, a]   c*a                 ['rmul', a, c]  a*c          ['div', a, c]  a/c
  ['dot', c, a]   dot(c, a)           ['dotr', a, c]  dot(a, c)
  ['add', a, b] ['sub', a, b]         either operand may be a constant (not both)
  ['max', a, b, ...] ['min', a, b, ...]
  ['iadd', a, b] ['isub', a, b] ['imul', a, c] ['idiv', a, c]     in-place forms (a is a function object)

analyze(tree) -> Info with
  status   'ok' | 'refused' | 'unspec'
           refused : modeling.rst says the combination is not allowed (dimension mismatch, not convex/concave)
           unspec  : the documentation is silent or ambiguous - nothing may be demanded about acceptance
  reason   short tag for refused / unspec
  n        length (broadcasting rule)                      (ok, and unspec when it is still well defined)
  cls      frozenset of possible curvature classes, letters 'A' (affine) 'V' (convex) 'C' (concave);
           more than one letter when the documentation leaves the bookkeeping class open
           (0*f of a piecewise-linear f; max(u) of a length-1 u)
  vars     frozenset of variable names occurring in the tree
value(tree, assign) -> list of Fractions (assign: name -> list of numbers)
"""
from fractions import Fraction as Fr

VARLEN = {'x': 1, 'y': 2, 'z': 3}


class Info(object):
    __slots__ = ('status', 'reason', 'kind', 'n', 'cls', 'vars', 'size', 'ckind')

    def __init__(self, status='ok', reason=None, kind='func', n=None, cls=None, vars=frozenset(), size=None,
                 ckind=None):
        self.status, self.reason, self.kind, self.n, self.cls, self.vars = status, reason, kind, n, cls, vars
        self.size, self.ckind = size, ckind

    def __repr__(self):
        return 'Info(%s%s, %s, n=%r, cls=%s, vars=%s)' % (
            self.status, ':' + self.reason if self.reason else '', self.kind, self.n,
            ''.join(sorted(self.cls)) if self.cls else None, ''.join(sorted(self.vars)))


def refused(reason):
    return Info('refused', reason)


def unspec(reason, **kw):
    return Info('unspec', reason, **kw)


A = frozenset('A')


# ------------------------------------------------------------------ constants
def ccode(t):
    """shape/kind code of a constant node: int float d11 s11 dcol scol drow srow dmat smat."""
    kind, (r, c) = t[1], t[2]
    if kind in ('int', 'float'):
        return kind
    p = 'd' if kind == 'dense' else 's'
    if (r, c) == (1, 1):
        return p + '11'
    if c == 1:
        return p + 'col'
    if r == 1:
        return p + 'row'
    return p + 'mat'


def _is_scalar(i):
    """int, float or dense 1x1 matrix: 'scalar' in the sense of modeling.rst / matrices.rst."""
    return i.ckind in ('int', 'float') or (i.ckind == 'dense' and i.size == (1, 1))


def _is_sp11(i):
    return i.ckind == 'sparse' and i.size == (1, 1)


def _cval(t):
    return [Fr(v) for v in t[3]]


def _sign(t):
    v = Fr(t[3][0])
    return (v > 0) - (v < 0)


# ------------------------------------------------------------------ curvature algebra
_NEG = {'A': 'A', 'V': 'C', 'C': 'V'}
_ADD = {('A', 'A'): 'A', ('A', 'V'): 'V', ('V', 'A'): 'V', ('V', 'V'): 'V', ('A', 'C'): 'C', ('C', 'A'): 'C',
        ('C', 'C'): 'C', ('V', 'C'): 'R', ('C', 'V'): 'R'}


def _neg(cls):
    return frozenset(_NEG[c] for c in cls)


def _scal(cls, sgn):
    """class alternatives of s*f for a scalar of sign sgn."""
    if sgn > 0:
        return cls
    if sgn < 0:
        return _neg(cls)
    # s == 0: the result is the zero function; whether it is still booked as convex/concave is not documented
    return frozenset(cls) | A


def _decide(outs, reason, **kw):
    """outs: set of alternatives, 'R' = refused."""
    outs = set(outs)
    if outs == {'R'}:
        return refused(reason)
    if 'R' in outs:
        return unspec(reason + ':class-bookkeeping-open', **kw)
    return Info('ok', cls=frozenset(outs), **kw)


# ------------------------------------------------------------------ indexing
def index_list(idx, L):
    """positions selected by a single-argument index on a length-L vector, or None when out of range."""
    k = idx[0]
    if k == 'int':
        i = idx[1]
        if -L <= i < L:
            return [i % L]
        return None
    if k in ('list', 'imat'):
        out = []
        for i in idx[1]:
            if not -L <= i < L:
                return None
            out.append(i % L)
        return out
    if k == 'slice':
        return list(range(*slice(idx[1], idx[2], idx[3]).indices(L)))
    raise ValueError('bad index %r' % (idx,))


# ------------------------------------------------------------------ analysis
def analyze(t, memo=None):
    if memo is not None:
        key = id(t)
        r = memo.get(key)
        if r is None:
            r = memo[key] = (t, _analyze(t, memo))     # keeping t alive keeps id(t) unique
        return r[1]
    return _analyze(t, None)


def _bad_child(*infos):
    """propagate refused / unspec from children (refused wins)."""
    for i in infos:
        if i.status == 'refused':
            return Info('refused', 'child:' + i.reason)
    for i in infos:
        if i.status == 'unspec':
            return Info('unspec', 'child:' + i.reason)
    return None


def _analyze(t, memo):
    op = t[0]
    if op == 'var':
        return Info('ok', kind='func', n=VARLEN[t[1]], cls=A, vars=frozenset([t[1]]))
    if op == 'const':
        return Info('ok', kind='const', size=(t[2][0], t[2][1]), ckind=t[1], n=t[2][0] * t[2][1])
    ch = [analyze(c, memo) for c in t[1:] if isinstance(c, list) and c and c[0] in OPS]
    bad = _bad_child(*ch)
    if bad is not None:
        return bad
    vs = frozenset().union(*[c.vars for c in ch])

    if op in ('pos', 'neg', 'sum', 'abs', 'max1', 'min1'):
        f = ch[0]
        if f.kind != 'func':
            return unspec(op + ':constant-operand')
        if op == 'pos':
            return Info('ok', n=f.n, cls=f.cls, vars=vs)
        if op == 'neg':
            return Info('ok', n=f.n, cls=_neg(f.cls), vars=vs)
        if op == 'sum':
            return Info('ok', n=1, cls=f.cls, vars=vs)
        if op == 'abs':
            if f.cls == A:
                return Info('ok', n=f.n, cls=frozenset('V'), vars=vs)
            # rst defines abs only for variables and affine functions
            return unspec('abs:piecewise-linear-argument', n=f.n, vars=vs)
        good, badc = ('V', 'C') if op == 'max1' else ('C', 'V')
        if f.n > 1:
            return _decide(['R' if c == badc else good for c in f.cls], op + ':%s-argument' %
                           ('concave' if badc == 'C' else 'convex'), n=1, vars=vs)
        # length-1 argument: rst reads max(u) = max(u[0]) (a convex term), the docstring says "returns s[0]"
        outs = set()
        for c in f.cls:
            outs.add(c)
            outs.add('R' if c == badc else good)
        return _decide(outs, op + ':length-1-argument', n=1, vars=vs)

    if op == 'index':
        f = ch[0]
        if f.kind != 'func':
            return unspec('index:constant-operand')
        l = index_list(t[2], f.n)
        if l is None:
            return unspec('index:out-of-range')          # matrices.rst: "the index runs from -len to len-1"
        if not l:
            return unspec('index:empty')
        return Info('ok', n=len(l), cls=f.cls, vars=vs)

    if op in ('mul', 'rmul', 'div', 'imul', 'idiv'):
        c, f = (ch[0], ch[1]) if op == 'mul' else (ch[1], ch[0])
        if f.kind != 'func' or c.kind != 'const':
            return refused(op + ':product-of-two-functions') if c.kind == 'func' and f.kind == 'func' \
                else unspec(op + ':operand-kinds')
        ct = t[1] if op == 'mul' else t[2]
        L = f.n
        if _is_scalar(c):
            s = _sign(ct)
            if op in ('div', 'idiv'):
                if s == 0:
                    return unspec(op + ':division-by-zero')
            return Info('ok', n=L, cls=_scal(f.cls, s), vars=vs)
        if _is_sp11(c):
            if op in ('mul', 'rmul') and L == 1 and f.cls == A:
                return Info('ok', n=1, cls=A, vars=vs)          # a matrix with one column / size[1] == len(v)
            return unspec(op + ':sparse-1x1')
        r, k = c.size
        if op in ('imul', 'idiv'):
            return refused(op + ':non-scalar')                  # "allowed if u is an integer, float, or 1 by 1 matrix"
        if op == 'div':
            return unspec('div:non-scalar')                     # rst only speaks of division by scalars
        if not f.cls <= A:
            if 'A' in f.cls:
                return unspec(op + ':matrix-times-maybe-pwl')
            return refused(op + ':matrix-times-pwl')            # "only defined if a is a ... 1 by 1 matrix"
        if op == 'mul':
            if k == L:
                return Info('ok', n=r, cls=A, vars=vs)
            if L == 1:
                return unspec('mul:matrix-times-length-1')       # scalar product under matrices.rst: not a column
            return refused('mul:dimension-mismatch')
        # rmul: f * c
        if L == 1:
            if k == 1:
                return Info('ok', n=r, cls=A, vars=vs)          # "len(v) is 1 and a is a matrix with one column"
            return unspec('rmul:length-1-times-matrix')
        if r != 1:
            return refused('rmul:dimension-mismatch')
        return unspec('rmul:outer-product')

    if op in ('dot', 'dotr'):
        c, f = (ch[0], ch[1]) if op == 'dot' else (ch[1], ch[0])
        if f.kind != 'func' or c.kind != 'const':
            return unspec('dot:operand-kinds')
        if c.ckind != 'dense' or c.size[1] != 1:
            return unspec('dot:constant-not-dense-column')
        if f.cls != A:
            return unspec('dot:piecewise-linear-argument')
        k = c.size[0]
        if k == f.n:
            return Info('ok', n=1, cls=A, vars=vs)
        if k > 1 and f.n > 1:
            return refused('dot:dimension-mismatch')
        return unspec('dot:length-1-operand')

    if op in ('add', 'sub', 'iadd', 'isub'):
        a, b = ch
        inplace = op in ('iadd', 'isub')
        base = 'add' if op in ('add', 'iadd') else 'sub'
        if a.kind == 'const' and b.kind == 'const':
            return unspec(op + ':two-constants')
        if inplace and a.kind != 'func':
            return unspec(op + ':constant-target')
        if a.kind == 'const' or b.kind == 'const':
            c, f = (a, b) if a.kind == 'const' else (b, a)
            cls = f.cls if (a.kind == 'func' or base == 'add') else _neg(f.cls)
            L = f.n
            if _is_scalar(c):
                return Info('ok', n=L, cls=cls, vars=vs)
            r, k = c.size
            if k != 1:
                if L == 1:
                    return unspec(op + ':length-1-plus-matrix')
                return refused(op + ':constant-not-a-column')
            if (r, k) == (1, 1):     # sparse 1x1: a one-column matrix, but not in rst's list of scalar terms
                if L == 1:
                    return Info('ok', n=1, cls=cls, vars=vs)
                return unspec(op + ':sparse-1x1-broadcast')
            if r == L:
                return Info('ok', n=L, cls=cls, vars=vs)
            if L == 1:
                if inplace:
                    return refused(op + ':length-change')
                return Info('ok', n=r, cls=cls, vars=vs)
            return refused(op + ':length-mismatch')
        if a.n != b.n and a.n != 1 and b.n != 1:
            return refused(op + ':length-mismatch')
        if inplace and b.n != a.n and b.n != 1:
            return refused(op + ':length-change')
        bc = b.cls if base == 'add' else _neg(b.cls)
        outs = set(_ADD[(p, q)] for p in a.cls for q in bc)
        r = _decide(outs, op + ':convex-plus-concave', n=max(a.n, b.n), vars=vs)
        if inplace and r.status == 'ok' and a.cls == A and not b.cls <= A:
            # rst: for an affine f, "f += u with u a constant, a variable or an affine function"
            return unspec(op + ':affine-target-pwl-operand', n=r.n, vars=vs)
        return r

    if op in ('max', 'min'):
        good, badc = ('V', 'C') if op == 'max' else ('C', 'V')
        if len(ch) < 2:
            return unspec(op + ':arity')
        if not any(c.kind == 'func' for c in ch):
            return unspec(op + ':no-function-argument')
        n = 1
        for c in ch:
            if c.kind == 'const':
                if not (c.ckind in ('int', 'float') or (c.ckind == 'dense' and c.size[1] == 1)):
                    return unspec(op + ':constant-argument-kind')      # rst lists scalars and dense columns only
                lg = c.size[0]
            else:
                lg = c.n
            if lg != 1:
                if n != 1 and n != lg:
                    return refused(op + ':length-mismatch')
                n = lg
        alts = set()
        for c in ch:
            if c.kind == 'func':
                for k in c.cls:
                    alts.add('R' if k == badc else good)
        # refused as soon as one argument certainly has the wrong curvature
        for c in ch:
            if c.kind == 'func' and c.cls == frozenset(badc):
                return refused(op + ':%s-argument' % ('concave' if badc == 'C' else 'convex'))
        return _decide(alts, op + ':%s-argument' % ('concave' if badc == 'C' else 'convex'), n=n, vars=vs)

    raise ValueError('unknown op %r' % (op,))


OPS = frozenset(['var', 'const', 'pos', 'neg', 'sum', 'abs', 'max1', 'min1', 'index', 'mul', 'rmul', 'div',
                 'imul', 'idiv', 'dot', 'dotr', 'add', 'sub', 'iadd', 'isub', 'max', 'min'])


# ------------------------------------------------------------------ values
def _bc(v, n):
    return v if len(v) == n else v * n


def _matvec(ct, v):
    r, k = ct[2]
    d = _cval(ct)
    return [sum((d[j * r + i] * v[j] for j in range(k)), Fr(0)) for i in range(r)]


def value(t, assign, memo=None):
    """value of a function-valued tree as a list of Fractions; constants evaluate to their column-major data."""
    op = t[0]
    if op == 'var':
        return [Fr(v) for v in assign[t[1]]]
    if op == 'const':
        return _cval(t)
    if memo is not None:
        vk = ('v', id(t))
        vs = memo.get(vk)
        if vs is None:
            vs = memo[vk] = (t, tuple(sorted(tree_vars(t))))
        key = (id(t),) + tuple(tuple(assign[k]) for k in vs[1])     # a subtree only sees its own variables
        r = memo.get(key)
        if r is None:
            r = memo[key] = (t, _value(t, assign, memo))
        return r[1]
    return _value(t, assign, memo)


def tree_vars(t):
    """set of variable names occurring in the tree."""
    if t[0] == 'var':
        return {t[1]}
    if t[0] == 'const':
        return set()
    out = set()
    for c in t[1:]:
        if isinstance(c, list) and c and c[0] in OPS:
            out |= tree_vars(c)
    return out


def _isc(t):
    return t[0] == 'const'


def _value(t, assign, memo):
    op = t[0]
    if op in ('pos', 'neg', 'sum', 'abs', 'max1', 'min1'):
        v = value(t[1], assign, memo)
        if op == 'pos':
            return list(v)
        if op == 'neg':
            return [-a for a in v]
        if op == 'sum':
            return [sum(v, Fr(0))]
        if op == 'abs':
            return [abs(a) for a in v]
        return [max(v)] if op == 'max1' else [min(v)]
    if op == 'index':
        v = value(t[1], assign, memo)
        return [v[i] for i in index_list(t[2], len(v))]
    if op in ('mul', 'rmul', 'div', 'imul', 'idiv'):
        ct, ft = (t[1], t[2]) if op == 'mul' else (t[2], t[1])
        v = value(ft, assign, memo)
        r, k = ct[2] if ct[1] in ('dense', 'sparse') else (1, 1)
        if (r, k) == (1, 1):
            s = Fr(ct[3][0])
            if op in ('div', 'idiv'):
                return [a / s for a in v]
            return [s * a for a in v]
        if op == 'mul':
            if k != len(v):
                raise ValueError('no value: dimension mismatch')
            return _matvec(ct, v)
        if op == 'rmul':
            if len(v) != 1 or k != 1:
                raise ValueError('no value: dimension mismatch')
            return [c * v[0] for c in _cval(ct)]
        raise ValueError('no value')
    if op in ('dot', 'dotr'):
        ct, ft = (t[1], t[2]) if op == 'dot' else (t[2], t[1])
        v = value(ft, assign, memo)
        c = _cval(ct)
        if len(c) != len(v):
            raise ValueError('no value: dimension mismatch')
        return [sum((p * q for p, q in zip(c, v)), Fr(0))]
    if op in ('add', 'sub', 'iadd', 'isub'):
        a = value(t[1], assign, memo)
        b = value(t[2], assign, memo)
        n = max(len(a), len(b))
        if len(a) not in (1, n) or len(b) not in (1, n):
            raise ValueError('no value: length mismatch')
        a, b = _bc(a, n), _bc(b, n)
        if op in ('add', 'iadd'):
            return [p + q for p, q in zip(a, b)]
        return [p - q for p, q in zip(a, b)]
    if op in ('max', 'min'):
        vs = [value(c, assign, memo) for c in t[1:]]
        n = max(len(v) for v in vs)
        if any(len(v) not in (1, n) for v in vs):
            raise ValueError('no value: length mismatch')
        vs = [_bc(v, n) for v in vs]
        f = max if op == 'max' else min
        return [f(col) for col in zip(*vs)]
    raise ValueError('unknown op %r' % (op,))


def dyadic(t):
    """True when every constant in the tree is an integer or a dyadic rational (so float evaluation is exact for
    the small magnitudes used) and every divisor is a power of two."""
    if t[0] == 'const':
        for v in t[3]:
            d = Fr(v).denominator
            if d & (d - 1):
                return False
        return True
    if t[0] == 'var':
        return True
    if t[0] in ('div', 'idiv'):
        s = Fr(t[2][3][0]) if t[2][0] == 'const' and len(t[2][3]) == 1 else None
        if s is not None and s != 0:
            q = 1 / s
            if q.denominator & (q.denominator - 1):
                return False
    return all(dyadic(c) for c in t[1:] if isinstance(c, list) and c and c[0] in OPS)


def show(t):
    """compact, readable rendering of a tree (for messages)."""
    op = t[0]
    if op == 'var':
        return t[1]
    if op == 'const':
        k = ccode(t)
        if k in ('int', 'float'):
            return repr(t[3][0])
        return '%s%dx%d%s' % (k[0].upper(), t[2][0], t[2][1], list(t[3]))
    if op == 'index':
        i = t[2]
        if i[0] == 'slice':
            s = '%s:%s:%s' % tuple('' if v is None else v for v in i[1:4])
        elif i[0] == 'imat':
            s = 'imatrix(%s)' % (i[1],)
        else:
            s = repr(i[1])
        return '%s[%s]' % (show(t[1]), s)
    sym = {'add': '+', 'sub': '-', 'iadd': '+=', 'isub': '-=', 'mul': '*', 'rmul': '*', 'div': '/', 'imul': '*=',
           'idiv': '/='}
    if op in sym:
        return '(%s %s %s)' % (show(t[1]), sym[op], show(t[2]))
    if op == 'neg':
        return '-' + show(t[1])
    if op == 'pos':
        return '+' + show(t[1])
    name = {'max1': 'max', 'min1': 'min', 'dotr': 'dot'}.get(op, op)
    return '%s(%s)' % (name, ', '.join(show(c) for c in t[1:]))
