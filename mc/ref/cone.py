"""Reference model of the product-cone algebra used by the cvxopt solvers.

Plain Python floats and lists only; nothing from cvxopt.  Vectors of the space
S = R^mnl x R^l x Q_1.. x S_1.. are Python lists; 's' blocks are stored
column-major, unpacked (m*m entries), and only the lower triangle is ever read.
"""
import math


# ---------------------------------------------------------------- dimensions
def cdim(dims, mnl=0):
    return mnl + dims['l'] + sum(dims['q']) + sum(m * m for m in dims['s'])


def cdim_packed(dims, mnl=0):
    return mnl + dims['l'] + sum(dims['q']) + sum(m * (m + 1) // 2 for m in dims['s'])


def cdim_diag(dims, mnl=0):
    return mnl + dims['l'] + sum(dims['q']) + sum(dims['s'])


def blocks(dims, mnl=0):
    """yield (kind, offset, m) for kinds 'nl','l','q','s' (unpacked storage)."""
    ind = 0
    if mnl:
        yield ('nl', 0, mnl)
    ind = mnl
    yield ('l', ind, dims['l'])
    ind += dims['l']
    for m in dims['q']:
        yield ('q', ind, m)
        ind += m
    for m in dims['s']:
        yield ('s', ind, m)
        ind += m * m


def low(x, off, m):
    """Symmetric m x m matrix (list of rows) defined by the lower triangle stored at x[off:]."""
    A = [[0.0] * m for _ in range(m)]
    for j in range(m):
        for i in range(j, m):
            A[i][j] = A[j][i] = x[off + j * m + i]
    return A


def full(x, off, m):
    return [[x[off + j * m + i] for j in range(m)] for i in range(m)]


# ---------------------------------------------------------------- small dense helpers
def matmul(A, B):
    n, k, m = len(A), len(B), (len(B[0]) if B else 0)
    return [[sum(A[i][t] * B[t][j] for t in range(k)) for j in range(m)] for i in range(n)]


def transpose(A):
    if not A:
        return []
    return [list(r) for r in zip(*A)]


def jacobi_eig(A, sweeps=60):
    """Eigen-decomposition of a small symmetric matrix (list of rows) by cyclic Jacobi.
    Returns (w ascending, V with eigenvectors in columns)."""
    n = len(A)
    A = [list(r) for r in A]
    V = [[1.0 if i == j else 0.0 for j in range(n)] for i in range(n)]
    for _ in range(sweeps):
        off = sum(A[i][j] ** 2 for i in range(n) for j in range(n) if i != j)
        if off == 0.0:
            break
        scale = sum(A[i][i] ** 2 for i in range(n)) + off
        if off <= 1e-34 * scale:
            break
        for p in range(n - 1):
            for q in range(p + 1, n):
                if A[p][q] == 0.0:
                    continue
                theta = (A[q][q] - A[p][p]) / (2.0 * A[p][q])
                t = (1.0 if theta >= 0 else -1.0) / (abs(theta) + math.sqrt(theta * theta + 1.0))
                c = 1.0 / math.sqrt(t * t + 1.0)
                s = t * c
                for k in range(n):
                    akp, akq = A[k][p], A[k][q]
                    A[k][p] = c * akp - s * akq
                    A[k][q] = s * akp + c * akq
                for k in range(n):
                    apk, aqk = A[p][k], A[q][k]
                    A[p][k] = c * apk - s * aqk
                    A[q][k] = s * apk + c * aqk
                for k in range(n):
                    vkp, vkq = V[k][p], V[k][q]
                    V[k][p] = c * vkp - s * vkq
                    V[k][q] = s * vkp + c * vkq
    w = [A[i][i] for i in range(n)]
    order = sorted(range(n), key=lambda i: w[i])
    return [w[i] for i in order], [[V[r][i] for i in order] for r in range(n)]


def mineig(A):
    if not A:
        return None
    return jacobi_eig(A)[0][0]


def solve_dense(A, b):
    """Gaussian elimination with partial pivoting; A list of rows, b list.  Returns x or None if singular."""
    n = len(A)
    M = [list(A[i]) + [b[i]] for i in range(n)]
    for c in range(n):
        p = max(range(c, n), key=lambda r: abs(M[r][c]))
        if abs(M[p][c]) == 0.0:
            return None
        M[c], M[p] = M[p], M[c]
        for r in range(c + 1, n):
            f = M[r][c] / M[c][c]
            if f != 0.0:
                for k in range(c, n + 1):
                    M[r][k] -= f * M[c][k]
    x = [0.0] * n
    for i in range(n - 1, -1, -1):
        x[i] = (M[i][n] - sum(M[i][k] * x[k] for k in range(i + 1, n))) / M[i][i]
    return x


# ---------------------------------------------------------------- inner products and norms
def sdot(x, y, dims, mnl=0):
    a = 0.0
    for kind, off, m in blocks(dims, mnl):
        if kind != 's':
            a += sum(x[off + i] * y[off + i] for i in range(m))
        else:
            for j in range(m):
                a += x[off + j * m + j] * y[off + j * m + j]
                for i in range(j + 1, m):
                    a += 2.0 * x[off + j * m + i] * y[off + j * m + i]
    return a


def snrm2(x, dims, mnl=0):
    return math.sqrt(max(0.0, sdot(x, x, dims, mnl)))


def nrm2(x):
    return math.sqrt(sum(v * v for v in x))


def dot(x, y):
    return sum(a * b for a, b in zip(x, y))


def jdot(x, y):
    return x[0] * y[0] - sum(a * b for a, b in zip(x[1:], y[1:]))


def jnrm2(x):
    a = nrm2(x[1:])
    return math.sqrt(x[0] - a) * math.sqrt(x[0] + a)


def max_step(x, dims, mnl=0):
    """min { t : x + t e >= 0 }; 0.0 for the empty cone."""
    t = []
    for kind, off, m in blocks(dims, mnl):
        if kind in ('nl', 'l'):
            if m:
                t.append(-min(x[off:off + m]))
        elif kind == 'q':
            if m:
                t.append(nrm2(x[off + 1:off + m]) - x[off])
        else:
            if m:
                t.append(-mineig(low(x, off, m)))
    # the implementation lumps nl and l into one term; max is the same
    return max(t) if t else 0.0


def cone_margin(x, dims, mnl=0):
    """Largest t with x - t e in K  ( = -max_step(x) ); +inf for the empty cone."""
    if cdim(dims, mnl) == 0:
        return float('inf')
    return -max_step(x, dims, mnl)


# ---------------------------------------------------------------- Nesterov-Todd scaling
def apply_W(x, W, trans='N', inverse='N'):
    """Return W*x, W'*x, W^{-1}x or W^{-T}x for one column x (list), from the definition.
    Only the lower triangle of 's' blocks is read and written; strict upper entries are copied."""
    y = list(x)
    ind = 0
    if 'dnl' in W:
        w = W['dnl'] if inverse == 'N' else W['dnli']
        for i in range(len(w)):
            y[i] = w[i] * x[i]
        ind += len(w)
    w = W['d'] if inverse == 'N' else W['di']
    for i in range(len(w)):
        y[ind + i] = w[i] * x[ind + i]
    ind += len(w)
    for k, v in enumerate(W['v']):
        m = len(v)
        b = W['beta'][k]
        xk = x[ind:ind + m]
        if inverse == 'N':
            # beta * (2 v v' - J) xk
            vx = dot(v, xk)
            out = [b * (2.0 * v[i] * vx - (xk[i] if i == 0 else -xk[i])) for i in range(m)]
        else:
            # 1/beta * (2 J v v' J - J) xk
            Jv = [v[0]] + [-t for t in v[1:]]
            vx = dot(Jv, xk)
            out = [(2.0 * Jv[i] * vx - (xk[i] if i == 0 else -xk[i])) / b for i in range(m)]
        y[ind:ind + m] = out
        ind += m
    for k in range(len(W['r'])):
        r = W['r'][k] if inverse == 'N' else W['rti'][k]   # list of rows
        m = len(r)
        X = low(x, ind, m)
        if inverse == 'N':
            M = matmul(matmul(transpose(r), X), r) if trans == 'N' else matmul(matmul(r, X), transpose(r))
        else:
            M = matmul(matmul(r, X), transpose(r)) if trans == 'N' else matmul(matmul(transpose(r), X), r)
        for j in range(m):
            for i in range(j, m):
                y[ind + j * m + i] = M[i][j]
        ind += m * m
    return y


def scale2(lmbda, x, dims, mnl=0, inverse='N'):
    """H(lambda^{1/2}) x  or  H(lambda^{-1/2}) x for one column x; 's' blocks fully (both triangles)."""
    y = list(x)
    n = mnl + dims['l']
    for i in range(n):
        y[i] = x[i] / lmbda[i] if inverse == 'N' else x[i] * lmbda[i]
    ind = n
    for m in dims['q']:
        lk = lmbda[ind:ind + m]
        xk = x[ind:ind + m]
        a = jnrm2(lk)
        l = [t / a for t in lk]
        if inverse == 'N':
            lx = jdot(l, xk)
            out = [lx] + [xk[i] - (xk[0] + lx) / (l[0] + 1.0) * l[i] for i in range(1, m)]
            out = [t / a for t in out]
        else:
            lx = dot(l, xk)
            out = [lx] + [xk[i] + (xk[0] + lx) / (l[0] + 1.0) * l[i] for i in range(1, m)]
            out = [t * a for t in out]
        y[ind:ind + m] = out
        ind += m
    ind2 = ind
    for m in dims['s']:
        for j in range(m):
            for i in range(m):
                c = math.sqrt(lmbda[ind2 + j]) * math.sqrt(lmbda[ind2 + i])
                y[ind + j * m + i] = x[ind + j * m + i] / c if inverse == 'N' else x[ind + j * m + i] * c
        ind += m * m
        ind2 += m
    return y


def pack(x, dims, mnl=0):
    """unpacked -> packed ('L', off-diagonals * sqrt(2))."""
    nlq = mnl + dims['l'] + sum(dims['q'])
    y = list(x[:nlq])
    iu = nlq
    for n in dims['s']:
        for k in range(n):
            y.append(x[iu + k * (n + 1)])
            for i in range(k + 1, n):
                y.append(x[iu + k * n + i] * math.sqrt(2.0))
        iu += n * n
    return y


def unpack(xp, dims, mnl=0, base=None):
    """packed -> unpacked lower triangle; strict upper entries taken from `base` (or 0)."""
    nlq = mnl + dims['l'] + sum(dims['q'])
    N = cdim(dims, mnl)
    y = list(base) if base is not None else [0.0] * N
    y[:nlq] = xp[:nlq]
    iu, ip = nlq, nlq
    for n in dims['s']:
        for k in range(n):
            y[iu + k * (n + 1)] = xp[ip]
            for i in range(1, n - k):
                y[iu + k * (n + 1) + i] = xp[ip + i] / math.sqrt(2.0)
            ip += n - k
        iu += n * n
    return y


def sprod(x, y, dims, mnl=0, diag='N'):
    """y o x.  diag='D': 's' part of y is diagonal (only diagonal stored, cdim_diag layout).
    Lower triangles of the 's' result are defined; strict upper copied from x."""
    out = list(x)
    n = mnl + dims['l']
    for i in range(n):
        out[i] = x[i] * y[i]
    ind = n
    for m in dims['q']:
        xk, yk = x[ind:ind + m], y[ind:ind + m]
        out[ind] = dot(xk, yk)
        for i in range(1, m):
            out[ind + i] = yk[0] * xk[i] + xk[0] * yk[i]
        ind += m
    if diag == 'N':
        for m in dims['s']:
            X, Y = low(x, ind, m), low(y, ind, m)
            XY, YX = matmul(X, Y), matmul(Y, X)
            for j in range(m):
                for i in range(j, m):
                    out[ind + j * m + i] = 0.5 * (XY[i][j] + YX[i][j])
            ind += m * m
    else:
        ind2 = ind
        for m in dims['s']:
            for j in range(m):
                for i in range(j, m):
                    out[ind + j * m + i] = x[ind + j * m + i] * 0.5 * (y[ind2 + i] + y[ind2 + j])
            ind += m * m
            ind2 += m
    return out


def ssqr(y, dims, mnl=0):
    """y o y in the diagonal ('s' blocks = eigenvalue vectors) layout."""
    out = list(y)
    n = mnl + dims['l']
    for i in range(n):
        out[i] = y[i] * y[i]
    ind = n
    for m in dims['q']:
        yk = y[ind:ind + m]
        out[ind] = dot(yk, yk)
        for i in range(1, m):
            out[ind + i] = 2.0 * yk[0] * yk[i]
        ind += m
    for m in dims['s']:
        for i in range(m):
            out[ind + i] = y[ind + i] * y[ind + i]
        ind += m
    return out


def sinv(x, y, dims, mnl=0):
    """y o\\ x with 's' part of y diagonal (cdim_diag layout for y)."""
    out = list(x)
    n = mnl + dims['l']
    for i in range(n):
        out[i] = x[i] / y[i]
    ind = n
    for m in dims['q']:
        xk, yk = x[ind:ind + m], y[ind:ind + m]
        a = yk[0] ** 2 - dot(yk[1:], yk[1:])
        l1x1 = dot(yk[1:], xk[1:])
        out[ind] = (yk[0] * xk[0] - l1x1) / a
        for i in range(1, m):
            out[ind + i] = (-yk[i] * xk[0] + (a * xk[i] + yk[i] * l1x1) / yk[0]) / a
        ind += m
    ind2 = ind
    for m in dims['s']:
        for j in range(m):
            for i in range(j, m):
                out[ind + j * m + i] = x[ind + j * m + i] / (0.5 * (y[ind2 + i] + y[ind2 + j]))
        ind += m * m
        ind2 += m
    return out


def trisc(x, dims, offset=0):
    y = list(x)
    ind = offset + dims['l'] + sum(dims['q'])
    for m in dims['s']:
        for j in range(m):
            for i in range(m):
                if i < j:
                    y[ind + j * m + i] = 0.0
                elif i > j:
                    y[ind + j * m + i] = 2.0 * x[ind + j * m + i]
        ind += m * m
    return y


def triusc(x, dims, offset=0):
    y = list(x)
    ind = offset + dims['l'] + sum(dims['q'])
    for m in dims['s']:
        for j in range(m):
            for i in range(j + 1, m):
                y[ind + j * m + i] = 0.5 * x[ind + j * m + i]
        ind += m * m
    return y


def symm(x, n, offset=0):
    y = list(x)
    for j in range(n):
        for i in range(j + 1, n):
            y[offset + i * n + j] = x[offset + j * n + i]
    return y


# ---------------------------------------------------------------- linear maps  G: R^n -> S
def Gx(Gcols, x, N):
    """G*x, Gcols = list of n columns of length N."""
    y = [0.0] * N
    for j, col in enumerate(Gcols):
        if x[j] != 0.0:
            for i in range(N):
                y[i] += col[i] * x[j]
    return y


def GTz(Gcols, z, dims, mnl=0):
    """G'*z using the S inner product (lower triangles, off-diagonals twice)."""
    return [sdot(col, z, dims, mnl) for col in Gcols]


# ---------------------------------------------------------------- invariants of a scaling
def w_invariants(W, dims, mnl=0):
    """Relative violations of the documented invariants of a scaling dictionary.
    Returns dict name -> relative error (0 when perfect); 'bad' -> text if a sign condition fails."""
    out = {}
    bad = []
    for name, iname in (('dnl', 'dnli'), ('d', 'di')):
        if name not in W:
            continue
        d, di = W[name], W[iname]
        if len(d) != len(di):
            bad.append('len(%s)!=len(%s)' % (name, iname))
            continue
        for i in range(len(d)):
            if not d[i] > 0.0:
                bad.append('%s[%d]=%r not > 0' % (name, i, d[i]))
            else:
                out[name + '*' + iname] = max(out.get(name + '*' + iname, 0.0), abs(d[i] * di[i] - 1.0))
    if len(W['d']) != dims['l']:
        bad.append('len(d) != dims[l]')
    if len(W['v']) != len(dims['q']) or len(W['beta']) != len(dims['q']):
        bad.append('number of q blocks')
    for k, v in enumerate(W['v']):
        if k < len(dims['q']) and len(v) != dims['q'][k]:
            bad.append('len(v[%d])' % k)
        if not W['beta'][k] > 0.0:
            bad.append('beta[%d]=%r' % (k, W['beta'][k]))
        if not v[0] > 0.0:
            bad.append('v[%d][0]=%r' % (k, v[0]))
        nv = dot(v, v)
        out['vJv'] = max(out.get('vJv', 0.0), abs(jdot(v, v) - 1.0) / max(1.0, nv))
    if len(W['r']) != len(dims['s']) or len(W['rti']) != len(dims['s']):
        bad.append('number of s blocks')
    for k in range(len(W['r'])):
        r, rti = W['r'][k], W['rti'][k]
        m = len(r)
        if k < len(dims['s']) and m != dims['s'][k]:
            bad.append('order of r[%d]' % k)
        if m == 0:
            continue
        P = matmul(transpose(r), rti)     # r' * rti = I
        nr = math.sqrt(sum(t * t for row in r for t in row))
        nrti = math.sqrt(sum(t * t for row in rti for t in row))
        e = max(abs(P[i][j] - (1.0 if i == j else 0.0)) for i in range(m) for j in range(m))
        out['r_rti'] = max(out.get('r_rti', 0.0), e / max(1.0, nr * nrti))
    if bad:
        out['bad'] = '; '.join(bad)
    return out


def w_maps(W, s, z, lmbda, dims, mnl=0):
    """Relative errors of  W z = lambda  and  W^{-T} s = lambda.
    lmbda is in the 'diagonal' layout: for 's' blocks it holds the m eigenvalues (the scaled point is
    diag(lambda_k))."""
    N = cdim(dims, mnl)
    lam = [0.0] * N
    nlq = mnl + dims['l'] + sum(dims['q'])
    lam[:nlq] = lmbda[:nlq]
    iu, il = nlq, nlq
    for m in dims['s']:
        for i in range(m):
            lam[iu + i * (m + 1)] = lmbda[il + i]
        iu += m * m
        il += m
    Wz = apply_W(z, W, 'N', 'N')
    Wis = apply_W(s, W, 'T', 'I')

    def lowdiff(a, b):
        d = 0.0
        for kind, off, m in blocks(dims, mnl):
            if kind != 's':
                for i in range(m):
                    d = max(d, abs(a[off + i] - b[off + i]))
            else:
                for j in range(m):
                    for i in range(j, m):
                        d = max(d, abs(a[off + j * m + i] - b[off + j * m + i]))
        return d
    nl = max([abs(t) for t in lam] + [1e-300])
    # errors are measured relative to the norms of the factors: ||W|| ||z|| resp. ||W^-1|| ||s||
    nW, nWi = [1e-300], [1e-300]
    for k in ('dnl', 'd'):
        nW += [abs(t) for t in W.get(k, [])]
    for k in ('dnli', 'di'):
        nWi += [abs(t) for t in W.get(k, [])]
    for k, v in enumerate(W['v']):
        vv = 2.0 * sum(a * a for a in v)
        nW.append(W['beta'][k] * vv)
        nWi.append(vv / W['beta'][k])
    for r in W['r']:
        nW.append(sum(a * a for row in r for a in row))
    for r in W['rti']:
        nWi.append(sum(a * a for row in r for a in row))
    sz = max([abs(t) for t in z] + [1e-300]) * max(nW)
    ss = max([abs(t) for t in s] + [1e-300]) * max(nWi)
    return {'Wz-lambda': lowdiff(Wz, lam) / max(nl, sz), 'WiTs-lambda': lowdiff(Wis, lam) / max(nl, ss)}


# ---------------------------------------------------------------- interior points
def identity(dims, mnl=0):
    e = [0.0] * cdim(dims, mnl)
    for kind, off, m in blocks(dims, mnl):
        if kind in ('nl', 'l'):
            for i in range(m):
                e[off + i] = 1.0
        elif kind == 'q':
            if m:
                e[off] = 1.0
        else:
            for i in range(m):
                e[off + i * (m + 1)] = 1.0
    return e
