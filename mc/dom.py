"""Finite domains shared by the checks: cone structures, interior points, scalings."""
import itertools, math
from fractions import Fraction as Fr

Q_LIST = [[], [1], [2], [3], [1, 2], [2, 2]]
S_LIST = [[], [0], [1], [2], [3], [0, 2], [1, 2], [2, 1], [2, 2], [2, 3], [3, 2]]
L_LIST = [0, 1, 2]


def _cdim(d):
    return d['l'] + sum(d['q']) + sum(m * m for m in d['s'])


def structures(tier):
    """D_small (thorough) or its quick subset; canonical order = by total dimension."""
    out = []
    for l in L_LIST:
        for q in Q_LIST:
            for s in S_LIST:
                d = {'l': l, 'q': list(q), 's': list(s)}
                if _cdim(d) <= 14:
                    out.append(d)
    out.sort(key=lambda d: (_cdim(d), d['l'], d['q'], d['s']))
    if tier == 'thorough':
        return out
    quick = [d for d in out if _cdim(d) <= 6]
    extra = [{'l': 1, 'q': [3], 's': [2]}, {'l': 2, 'q': [1, 2], 's': [0, 2]}, {'l': 0, 'q': [], 's': [3]},
             {'l': 1, 'q': [2, 2], 's': [1, 2]}, {'l': 0, 'q': [], 's': [2, 2]}, {'l': 1, 'q': [2], 's': [2, 2]},
             {'l': 0, 'q': [], 's': [2, 3]}]      # two 's' blocks of different orders >= 2 (kernels size work arrays by the largest)
    for e in extra:
        if e not in quick:
            quick.append(e)
    return quick


def nonempty(structs):
    return [d for d in structs if _cdim(d) > 0]


# ---------------------------------------------------------------- interior points
L_VALS = [1.0, 0.5, 3.0]


def q_points(m):
    pts = []
    for u in itertools.product([0.0, 1.0, -1.0], repeat=m - 1):
        nu = math.sqrt(sum(t * t for t in u))
        for add in (0.5, 2.0):
            pts.append([nu + add] + list(u))
    return pts


def s_points(m):
    """L L' + I/2, L lower triangular over {-1,0,1} with ones on the diagonal varied; column-major, full."""
    pts = []
    nlow = m * (m + 1) // 2
    for vals in itertools.product([0, 1, -1], repeat=nlow):
        L = [[0] * m for _ in range(m)]
        it = iter(vals)
        for j in range(m):
            for i in range(j, m):
                L[i][j] = next(it)
        A = [[sum(L[i][k] * L[j][k] for k in range(m)) + (0.5 if i == j else 0.0) for j in range(m)] for i in range(m)]
        pts.append([A[i][j] for j in range(m) for i in range(m)])
        if len(pts) >= 40:
            break
    return pts


_QP, _SP = {}, {}


def interior(dims, mnl, variant, junk=None):
    """A strictly interior point of the cone; different `variant`s give different points.
    junk: value to put into the strict upper triangles of 's' blocks (None = symmetric)."""
    x = []
    for i in range(mnl + dims['l']):
        x.append(L_VALS[(variant + i) % len(L_VALS)])
    for k, m in enumerate(dims['q']):
        pts = _QP.setdefault(m, q_points(m))
        x += pts[(variant * 7 + 3 * k + (variant // 2)) % len(pts)]
    for k, m in enumerate(dims['s']):
        pts = _SP.setdefault(m, s_points(m))
        blk = list(pts[(variant * 5 + 2 * k + 1) % len(pts)])
        if junk is not None:
            for j in range(m):
                for i in range(j):
                    blk[j * m + i] = junk
        x += blk
    return x


# ---------------------------------------------------------------- generic scalings (not necessarily NT)
_R_POOL = {
    0: [[]],
    1: [[[2]], [[1]], [[-1]]],
    2: [[[1, 0], [0, 1]], [[2, 1], [0, 1]], [[1, -1], [2, 1]], [[0, 1], [1, 1]]],
    3: [[[1, 0, 0], [0, 1, 0], [0, 0, 1]], [[1, 2, 0], [0, 1, -1], [1, 0, 1]], [[2, 0, 1], [1, 1, 0], [0, -1, 1]]],
}


def _inv_T(r):
    """exact inverse transpose of a small integer matrix (list of rows)."""
    m = len(r)
    if m == 0:
        return []
    A = [[Fr(r[i][j]) for j in range(m)] + [Fr(int(i == j)) for j in range(m)] for i in range(m)]
    for c in range(m):
        p = next(i for i in range(c, m) if A[i][c] != 0)
        A[c], A[p] = A[p], A[c]
        pv = A[c][c]
        A[c] = [t / pv for t in A[c]]
        for i in range(m):
            if i != c and A[i][c] != 0:
                f = A[i][c]
                A[i] = [a - f * b for a, b in zip(A[i], A[c])]
    inv = [row[m:] for row in A]
    return [[float(inv[j][i]) for j in range(m)] for i in range(m)]


_QW = {1: [[]], 2: [[0.0], [0.75], [-1.0]], 3: [[0.0, 0.0], [0.75, -1.0], [-2.0, 0.5]]}


def genericW(dims, mnl, variant):
    """A scaling dictionary (reference form: lists) satisfying the documented invariants exactly
    up to rounding: d>0, di=1/d, v'Jv=1, v0>0, beta>0, rti = r^{-T}."""
    W = {}
    dvals = [2.0, 0.5, 4.0, 1.0]
    if mnl:
        W['dnl'] = [dvals[(variant + i) % 4] for i in range(mnl)]
        W['dnli'] = [1.0 / t for t in W['dnl']]
    W['d'] = [dvals[(variant + 1 + i) % 4] for i in range(dims['l'])]
    W['di'] = [1.0 / t for t in W['d']]
    W['v'], W['beta'], W['r'], W['rti'] = [], [], [], []
    for k, m in enumerate(dims['q']):
        w = _QW[m][(variant + k) % len(_QW[m])]
        v0 = math.sqrt(1.0 + sum(t * t for t in w))
        W['v'].append([v0] + list(w))
        W['beta'].append([2.0, 0.5, 1.0][(variant + k) % 3])
    for k, m in enumerate(dims['s']):
        pool = _R_POOL[m]
        r = pool[(variant + k + 1) % len(pool)]
        W['r'].append([[float(t) for t in row] for row in r])
        W['rti'].append(_inv_T(r))
    return W
