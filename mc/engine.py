"""Bounded-exhaustive exploration driver shared by all checks.

A check module (checks/Cnn.py) provides

  PROPERTY   = 'Cnn'
  LEVEL      = 'exploration' | 'model_checking' | 'fault_enumeration'
  RULE       = text: how cases are enumerated and what makes one non-trivial
  ASSUME     = [text, ...]
  FLAVOURS   = ('plain',) or ('plain', 'asan')        builds the check runs on
  cases(tier, seed, flavour) -> iterator of JSON-serialisable case descriptors,
                       in a canonical, deterministic, simplest-first order
  run(case)         -> dict with any of
        n           evaluations performed for this case        (default 1)
        nontrivial  how many of them reached the oracle's interesting branch
        outcomes    {label: count}
        viol        [ {key: str, msg: str, sub: json}, ... ]
        maxerr      {tolerance class: float}
        states, transitions, traces     (model_checking)
        cover       [hashable, ...]     coverage marks (union is reported)

The engine enumerates `cases` in every worker process and lets worker k execute
the cases with index = k (mod N): the enumeration is deterministic, so the
shards partition the space and nothing is sampled.  Before a case runs, its
index is appended to the worker's journal; a worker that dies on a signal is a
violation ("interpreter crashed") attributed to the journalled case, and the
shard resumes behind it.  A case that makes no progress for HANG seconds is
killed and reported the same way ("hang").
"""
import os, sys, json, time, hashlib, signal, traceback, tempfile, select, resource

from . import findings

VERIF = os.path.dirname(os.path.dirname(os.path.abspath(__file__)))
HANG = float(os.environ.get('VERIF_HANG', '300'))


def jdump(o):
    return json.dumps(o, sort_keys=True, default=_jdefault)


def _jdefault(o):
    try:
        import fractions
        if isinstance(o, fractions.Fraction):
            return float(o)
    except Exception:
        pass
    if isinstance(o, complex):
        return [o.real, o.imag]
    if isinstance(o, (set, frozenset, tuple)):
        return list(o)
    return repr(o)


class Agg(object):
    def __init__(self):
        self.n = 0
        self.cases = 0
        self.nontrivial = 0
        self.outcomes = {}
        self.viol = []
        self.maxerr = {}
        self.states = 0
        self.transitions = 0
        self.traces = 0
        self.cover = set()
        self.first = None
        self.last = None
        self.extra = {}

    def add(self, case, r):
        self.cases += 1
        self.n += r.get('n', 1)
        self.nontrivial += r.get('nontrivial', 0)
        for k, v in r.get('outcomes', {}).items():
            self.outcomes[k] = self.outcomes.get(k, 0) + v
        for v in r.get('viol', []):
            v = dict(v)
            v['case'] = case
            self.viol.append(v)
        for k, v in r.get('maxerr', {}).items():
            if v == v and v > self.maxerr.get(k, -1.0):
                self.maxerr[k] = v
        self.states += r.get('states', 0)
        self.transitions += r.get('transitions', 0)
        self.traces += r.get('traces', 0)
        for c in r.get('cover', []):
            self.cover.add(c if not isinstance(c, list) else tuple(c))
        for k, v in r.get('extra', {}).items():
            self.extra[k] = self.extra.get(k, 0) + v

    def todict(self):
        return dict(n=self.n, cases=self.cases, nontrivial=self.nontrivial, outcomes=self.outcomes,
                    viol=self.viol, maxerr=self.maxerr, states=self.states,
                    transitions=self.transitions, traces=self.traces,
                    cover=sorted(self.cover, key=repr), extra=self.extra)

    def merge(self, d):
        self.n += d['n']
        self.cases += d['cases']
        self.nontrivial += d['nontrivial']
        for k, v in d['outcomes'].items():
            self.outcomes[k] = self.outcomes.get(k, 0) + v
        self.viol.extend(d['viol'])
        for k, v in d['maxerr'].items():
            if v > self.maxerr.get(k, -1.0):
                self.maxerr[k] = v
        self.states += d['states']
        self.transitions += d['transitions']
        self.traces += d['traces']
        for c in d['cover']:
            self.cover.add(c if not isinstance(c, list) else tuple(c))
        for k, v in d['extra'].items():
            self.extra[k] = self.extra.get(k, 0) + v


def run_one(mod, case):
    """Run one case.  On the ASan flavour every report of the sanitizer written while the case ran becomes a
    violation keyed by error kind and the top cvxopt frame (function), e.g. asan:heap-buffer-overflow:READ:sparse.c:spmatrix_subscr."""
    from . import asan
    use_asan = asan.active()
    if use_asan:
        asan.begin()
    try:
        r = mod.run(case)
    except MemoryError:
        r = {'viol': [{'key': 'harness:MemoryError', 'msg': 'MemoryError in harness/run'}]}
    r = r or {}
    if use_asan:
        for e in asan.errors():
            r.setdefault('viol', []).append({
                'key': 'asan:%s:%s:%s' % (e['kind'], e['access'], e['where']),
                'msg': 'AddressSanitizer: %s (%s) in %s line %s' % (e['kind'], e['access'], e['where'], e['line'])})
    return r


def _cover_start():
    """development aid (mc/covmap.py): record which lines of the staged cvxopt/*.py execute (sys.monitoring, each
    location disabled after its first hit, so the cost is negligible and sys.settrace users are not disturbed)."""
    stage = os.environ.get('VERIF_STAGE', '\0')
    hits = set()
    mon = sys.monitoring
    tid = mon.COVERAGE_ID
    try:
        mon.use_tool_id(tid, 'verifcov')
    except ValueError:
        pass

    def line(code, ln):
        fn = code.co_filename
        if fn.startswith(stage) or fn.startswith('<cvxopt'):
            hits.add((os.path.basename(fn), ln))
        return mon.DISABLE
    mon.register_callback(tid, mon.events.LINE, line)
    mon.set_events(tid, mon.events.LINE)
    mon.restart_events()
    return hits


def _cover_dump(hits, tag):
    import ctypes, glob
    d = os.environ['VERIF_COVER']
    os.makedirs(d, exist_ok=True)
    with open(os.path.join(d, 'py-%s-%d.json' % (tag, os.getpid())), 'w') as f:
        json.dump(sorted(hits), f)
    for so in glob.glob(os.path.join(os.environ.get('VERIF_STAGE', ''), 'cvxopt', '*.so')):
        try:
            ctypes.CDLL(so).verif_gcov_dump()
        except Exception:
            pass


def _worker(mod, tier, seed, flavour, k, nw, skip, journal, outpath, maxviol):
    agg = Agg()
    hits = _cover_start() if os.environ.get('VERIF_COVER') else None
    jfd = os.open(journal, os.O_WRONLY | os.O_CREAT | os.O_APPEND)
    if not os.environ.get('VERIF_VERBOSE'):
        # solvers print progress when a wrapper drops options (a finding of C09); keep stdout clean
        dn = os.open(os.devnull, os.O_WRONLY)
        os.dup2(dn, 1)
    idx = -1
    try:
        for idx, case in enumerate(mod.cases(tier, seed, flavour)):
            if idx % nw != k or idx in skip:
                continue
            os.write(jfd, b'%d\n' % idx)
            t0 = time.time()
            r = run_one(mod, case)
            agg.add(case, r)
            agg.maxerr['slowest_case_wall_s'] = max(agg.maxerr.get('slowest_case_wall_s', 0.0), round(time.time() - t0, 2))
            if len(agg.viol) > maxviol:
                agg.extra['truncated_after_violations'] = 1
                break
        os.write(jfd, b'done %d\n' % (idx + 1))
    except BaseException:
        agg.viol.append({'key': 'harness:exception', 'msg': traceback.format_exc(),
                         'case': {'index': idx}})
        os.write(jfd, b'done %d\n' % (idx + 1))
    d = agg.todict()
    d['total'] = idx + 1
    with open(outpath + '.tmp', 'w') as f:
        f.write(jdump(d))
    os.replace(outpath + '.tmp', outpath)      # atomic: a worker dying while it writes leaves no result file
    os.close(jfd)
    if hits is not None:
        _cover_dump(hits, '%s-%s-%d' % (mod.PROPERTY, flavour, k))


def _case_at(mod, tier, seed, flavour, index):
    for idx, case in enumerate(mod.cases(tier, seed, flavour)):
        if idx == index:
            return case
    return None


def explore(mod, tier, seed, flavour, nworkers=None, maxviol=200):
    """Run the whole enumeration on `nworkers` forked workers; return Agg."""
    nw = nworkers or int(os.environ.get('VERIF_WORKERS', '16'))
    nw = max(1, min(nw, getattr(mod, 'MAX_WORKERS', 16)))
    tmp = tempfile.mkdtemp(prefix='vc-%s-' % mod.PROPERTY, dir=os.path.join(VERIF, '.cache'))
    agg = Agg()
    total = None
    # worker bookkeeping: k -> (pid, start, journal, out)
    live = {}

    def spawn(k, skip, gen):
        journal = os.path.join(tmp, 'j%d.%d' % (k, gen))
        out = os.path.join(tmp, 'o%d.%d' % (k, gen))
        sys.stdout.flush(); sys.stderr.flush()
        pid = os.fork()
        if pid == 0:
            try:
                signal.signal(signal.SIGINT, signal.SIG_DFL)
                _worker(mod, tier, seed, flavour, k, nw, skip, journal, out, maxviol)
            finally:
                os._exit(0)
        live[k] = [pid, skip, journal, out, gen, time.time(), -1]

    for k in range(nw):
        spawn(k, set(), 0)
    crashes = 0
    while live:
        time.sleep(0.05)
        for k in list(live):
            pid, skip, journal, out, gen, t0, lastpos = live[k]
            try:
                wpid, st = os.waitpid(pid, os.WNOHANG)
            except ChildProcessError:
                wpid, st = pid, 0
            jl = _journal_last(journal)
            if wpid == 0:
                # still running: hang watchdog on journal progress
                if jl != lastpos:
                    live[k][5] = time.time(); live[k][6] = jl
                elif time.time() - live[k][5] > HANG * _load_factor():
                    os.kill(pid, signal.SIGKILL)
                    os.waitpid(pid, 0)
                    st = -1000
                    wpid = pid
                else:
                    continue
            if wpid == 0:
                continue
            del live[k]
            if os.path.exists(out):
                d = json.load(open(out))
                if total is None:
                    total = d.get('total')
                agg.merge(d)
                continue
            # died without result: crash or hang on journalled case jl
            crashes += 1
            idx = jl if isinstance(jl, int) else None
            why = 'hang (no progress for %ds)' % HANG if st == -1000 else \
                  ('killed by signal %d' % os.WTERMSIG(st) if os.WIFSIGNALED(st) else 'exit status %s' % st)
            case = _case_at(mod, tier, seed, flavour, idx) if idx is not None else None
            key = 'crash:' + (mod.crash_key(case) if hasattr(mod, 'crash_key') and case is not None else str(idx))
            agg.viol.append({'key': key, 'msg': 'interpreter died: %s' % why, 'case': case})
            agg.n += 1
            # the shard's in-memory counts died with it: rerun the shard without the fatal case
            if idx is not None and crashes < 40:
                spawn(k, set(skip) | {idx}, gen + 1)
    import shutil
    shutil.rmtree(tmp, ignore_errors=True)
    agg.total = total
    return agg


def _load_factor():
    """the hang limit is meant for an otherwise idle machine; when other jobs compete for the cores (load average above
    the number of cores) a case legitimately takes that much longer, so the limit is stretched by the same factor."""
    try:
        return max(1.0, min(8.0, os.getloadavg()[0] / float(os.cpu_count() or 1)))
    except Exception:
        return 1.0


def _journal_last(journal):
    try:
        with open(journal, 'rb') as f:
            f.seek(0, 2)
            size = f.tell()
            f.seek(max(0, size - 64))
            lines = f.read().split(b'\n')
        lines = [l for l in lines if l]
        if not lines:
            return None
        l = lines[-1]
        if l.startswith(b'done'):
            return 'done'
        return int(l)
    except Exception:
        return None
