"""hist - explicit-state explorer over operation histories (DESIGN.md 2.2).

A *state* is identified by the event history that reaches it.  Live objects of
the implementation (C buffers, borrowed references) do not deep-copy safely, so
nothing is ever cloned: `build(history)` replays the whole history on freshly
constructed implementation + reference-model objects.  Cost is bounded by the
depth (<= 4 - 5 events).

    explore(init_events, alphabet, build, canon, invariant, max_depth)

    init_events   tuple of events that produces the root state (replayed by `build`)
    alphabet(o)   events enabled in the state held by objects `o`, canonical order
    build(h)      history (tuple of events) -> objects `o` (implementation + model),
                  obtained by executing every event of `h` on the real implementation
    canon(o)      hashable key built from BOTH the reference-model state and the
                  complete observable implementation state
    invariant(o, h) -> list of violations (dicts with at least 'key' and 'msg')
    max_depth     number of events explored below the root

Breadth-first, so the first history recorded for a violation key is a shortest
one.  Two histories are merged (the later one is not expanded) only when their
canonical keys are equal, i.e. when model state and implementation state agree
completely; merging therefore cannot hide a divergence.  The invariant is
evaluated on EVERY executed history, merged or not.

Returns {'states', 'transitions', 'depth', 'traces', 'violations', 'by_key', 'merged'}:
  states       distinct canonical keys
  transitions  executed (state, event) pairs
  depth        largest depth whose frontier was executed completely
  traces       histories executed on the real implementation (= 1 + transitions)
  violations   [{'key', 'msg', 'history', ...}] in BFS order, at most `keep` per key
  by_key       {key: number of histories that showed it}
"""


def explore(init_events, alphabet, build, canon, invariant, max_depth, keep=1, on_state=None):
    root = tuple(init_events)
    seen = {}
    frontier = [root]
    states = transitions = traces = merged = 0
    violations, by_key = [], {}
    depth_done = -1
    for depth in range(max_depth + 1):
        nxt = []
        for h in frontier:
            try:
                o = build(h)
            except Exception as e:      # the check's build() is expected to catch implementation errors itself
                import traceback
                _record(violations, by_key, keep, h,
                        {'key': 'hist:build:%s' % type(e).__name__, 'msg': traceback.format_exc()[-1500:]})
                traces += 1
                transitions += 1 if depth else 0
                continue
            traces += 1
            if depth:
                transitions += 1
            for v in invariant(o, h):
                _record(violations, by_key, keep, h, v)
            k = canon(o)
            if k in seen:
                merged += 1
                continue
            seen[k] = h
            states += 1
            if on_state is not None:
                on_state(o, h)
            if depth < max_depth:
                for e in alphabet(o):
                    nxt.append(h + (e,))
        depth_done = depth
        frontier = nxt
        if not frontier:
            break
    return {'states': states, 'transitions': transitions, 'depth': depth_done, 'traces': traces,
            'violations': violations, 'by_key': by_key, 'merged': merged}


def _record(violations, by_key, keep, h, v):
    k = v.get('key')
    by_key[k] = by_key.get(k, 0) + 1
    if by_key[k] <= keep:
        v = dict(v)
        v['history'] = [list(e) if isinstance(e, tuple) else e for e in h]
        violations.append(v)


def selftest():
    """Toy: a counter modulo 3 implemented wrongly (inc from 2 goes to 2): found at depth 3 exactly."""
    class O(object):
        pass

    def build(h):
        o = O(); o.impl = 0; o.model = 0
        for e in h:
            if e == 'inc':
                o.model = (o.model + 1) % 3
                o.impl = o.impl + 1 if o.impl < 2 else 2
            elif e == 'reset':
                o.model = o.impl = 0
        return o
    r = explore(('reset',), lambda o: ['inc', 'reset'], build, lambda o: (o.model, o.impl),
                lambda o, h: [] if o.model == o.impl else [{'key': 'toy:diverged', 'msg': '%r' % ((o.model, o.impl),)}], 4)
    assert r['violations'] and len(r['violations'][0]['history']) == 4, r
    assert r['traces'] == r['transitions'] + 1 and r['depth'] == 4
    return r


if __name__ == '__main__':
    print(selftest())
