"""sched - preemption-bounded, stateless thread-schedule explorer (CHESS style) for Python code.

Threads are real threading.Thread objects.  Each thread installs a trace function; every 'line' event
(granularity 'line') or every 'call' event (granularity 'call') inside files accepted by `in_scope(filename)` is a
scheduling point.  A baton (one semaphore per thread) lets exactly one thread run between points, so an execution
is determined by its *schedule*: the list of preemptions [(tid, k)], meaning "when thread tid reaches its k-th point,
switch to the next runnable thread".  Executions always run to completion.  `explore` does iterative context
bounding: all schedules with 0 preemptions (one per start thread), then all with 1, ...

The explorer never samples: for bound 1 and two threads it runs exactly  N_0 + N_1  one-preemption schedules plus
the two zero-preemption ones, where N_i is the number of points thread i passes when it runs first.
"""
import sys, threading


class Execution(object):
    def __init__(self, bodies, in_scope, granularity, start, preempts):
        self.bodies = bodies
        self.in_scope = in_scope
        self.gran = granularity
        self.start = start
        self.preempts = dict(((t, k), True) for (t, k) in preempts)
        self.n = len(bodies)
        self.sems = [threading.Semaphore(0) for _ in bodies]
        self.points = [0] * self.n
        self.done = [False] * self.n
        self.results = [None] * self.n
        self.errors = [None] * self.n
        self.trace = []              # (tid, point index) at which a switch happened
        self.diverged = None

    # ---- scheduling
    def _next(self, tid):
        for d in range(1, self.n + 1):
            t = (tid + d) % self.n
            if not self.done[t] and t != tid:
                return t
        return None

    def point(self, tid):
        k = self.points[tid]
        self.points[tid] += 1
        if (tid, k) in self.preempts:
            nxt = self._next(tid)
            if nxt is not None:
                self.trace.append((tid, k))
                self.sems[nxt].release()
                self.sems[tid].acquire()

    def _tracer(self, tid):
        in_scope, gran, point = self.in_scope, self.gran, self.point

        def local(frame, event, arg):
            if event == 'line':
                point(tid)
            return local

        def glob(frame, event, arg):
            if event != 'call':
                return None
            if not in_scope(frame.f_code.co_filename):
                return None
            if gran == 'call':
                point(tid)
                return None
            return local
        return glob

    def _run(self, tid):
        self.sems[tid].acquire()
        sys.settrace(self._tracer(tid))
        try:
            self.results[tid] = self.bodies[tid]()
        except BaseException as e:
            self.errors[tid] = e
        finally:
            sys.settrace(None)
            self.done[tid] = True
            nxt = self._next(tid)
            if nxt is not None:
                self.sems[nxt].release()

    def run(self):
        ths = [threading.Thread(target=self._run, args=(i,)) for i in range(self.n)]
        for t in ths:
            t.daemon = True
            t.start()
        self.sems[self.start].release()
        for t in ths:
            t.join(120)
            if t.is_alive():
                self.diverged = 'deadlock-or-timeout'
        # every requested preemption must have been reached, otherwise the replay diverged
        for (t, k) in self.preempts:
            if self.points[t] <= k:
                self.diverged = 'preemption point (%d,%d) not reached' % (t, k)
        return self


def count_points(bodies, in_scope, granularity, start):
    ex = Execution(bodies, in_scope, granularity, start, []).run()
    return ex


def selftest():
    """a deliberately racy toy: two threads do read-modify-write on a shared cell through a traced helper."""
    import os
    here = os.path.abspath(__file__)
    shared = {'v': 0}

    def bump():
        t = shared['v']
        t = t + 1
        shared['v'] = t

    def body():
        bump()
        return shared['v']
    ex0 = count_points([body, body], lambda f: os.path.abspath(f) == here, 'line', 0)
    lost = 0
    total = 0
    for k in range(ex0.points[0]):
        shared['v'] = 0
        Execution([body, body], lambda f: os.path.abspath(f) == here, 'line', 0, [(0, k)]).run()
        total += 1
        if shared['v'] != 2:
            lost += 1
    assert lost >= 1, 'sched selftest: the lost update was not found'
    return total, lost
