"""Turn AddressSanitizer reports (recover mode, written to a per-pid log) into check violations."""
import os, re, glob

_pos = {}


def _logfile():
    base = os.environ.get('VERIF_ASAN_LOG')
    if not base:
        return None
    return '%s.%d' % (base, os.getpid())


def active():
    return os.environ.get('VERIF_FLAVOUR') == 'asan' and bool(os.environ.get('VERIF_ASAN_LOG'))


def begin():
    f = _logfile()
    if not f:
        return
    try:
        _pos[f] = os.path.getsize(f)
    except OSError:
        _pos[f] = 0


def errors():
    """List of (kind, top cvxopt frame) for reports written since begin()."""
    f = _logfile()
    if not f or not os.path.exists(f):
        return []
    with open(f, 'r', errors='replace') as fh:
        fh.seek(_pos.get(f, 0))
        txt = fh.read()
    _pos[f] = _pos.get(f, 0) + len(txt.encode(errors='replace'))
    out = []
    for rep in txt.split('=================================================================')[1:]:
        m = re.search(r'ERROR: AddressSanitizer: (\S+)', rep)
        if not m:
            continue
        kind = m.group(1)
        rw = re.search(r'\n(READ|WRITE) of size (\d+)', rep)
        fr = re.search(r'#\d+ \S+ in (\w+) (?:\S*/)?src/C/(\w+\.c):(\d+)', rep)
        where = '%s:%s' % (fr.group(2), fr.group(1)) if fr else '?'
        line = fr.group(3) if fr else '?'
        out.append({'kind': kind, 'access': rw.group(1) if rw else '?', 'where': where, 'line': line})
    return out


def adopt(childpid):
    """append the report log of a forked child to this process's log, so that the reports the child wrote (recover mode:
    it keeps running) are attributed to the case that forked it."""
    base = os.environ.get('VERIF_ASAN_LOG')
    if not base:
        return
    cf = '%s.%d' % (base, childpid)
    try:
        with open(cf, 'rb') as fh:
            data = fh.read()
        os.unlink(cf)
    except OSError:
        return
    if data:
        with open(_logfile(), 'ab') as fh:
            fh.write(data)


def cleanup():
    base = os.environ.get('VERIF_ASAN_LOG')
    if base:
        for f in glob.glob(base + '.*'):
            try:
                os.unlink(f)
            except OSError:
                pass
