"""known_findings.json: read-only at run time.

{"known": [ {"property": "C19", "key": "<exact key or fnmatch pattern>", "what": "..."} ],
 "fixed": [ "fixed: property=C09 <commit> <what failed>", ... ] }

A violation is matched by (property, key).  `fixed` entries suppress nothing.
"""
import json, os, fnmatch

VERIF = os.path.dirname(os.path.dirname(os.path.abspath(__file__)))
PATH = os.path.join(VERIF, 'known_findings.json')


def load():
    try:
        with open(PATH) as f:
            return json.load(f)
    except FileNotFoundError:
        return {'known': [], 'fixed': []}


def match(prop, key, db=None):
    db = db or load()
    for k in db.get('known', []):
        if k['property'] != prop:
            continue
        if k['key'] == key or fnmatch.fnmatchcase(key, k['key']):
            return k
    return None
