import json, os
VERIF = os.path.dirname(os.path.dirname(os.path.abspath(__file__)))


def write(prop, tier, seed, level, coverage, wall, violations, assumptions, extra=None):
    evdir = os.environ.get('VERIF_EVIDENCE_DIR') or os.path.join(VERIF, 'evidence')
    os.makedirs(evdir, exist_ok=True)
    ev = {'property_id': prop, 'tier': tier, 'seed': int(seed), 'level': level,
          'coverage': coverage, 'assumptions': assumptions, 'wall_s': round(wall, 2),
          'violations': int(violations)}
    if extra:
        ev.update(extra)
    p = os.path.join(evdir, prop + '.json')
    with open(p + '.tmp', 'w') as f:
        json.dump(ev, f, indent=1, sort_keys=True, default=repr)
    os.replace(p + '.tmp', p)
    return p
