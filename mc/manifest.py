"""Regenerate MANIFEST.json from the check modules present in checks/ (python3 -m mc.manifest)."""
import json, os, re, ast
VERIF = os.path.dirname(os.path.dirname(os.path.abspath(__file__)))

TEXT = {}   # filled from checks/*.py module constants MANIFEST = {...}


def consts(path):
    """Read simple top-level constants of a check module without importing it."""
    tree = ast.parse(open(path).read())
    out = {}
    for node in tree.body:
        if isinstance(node, ast.Assign) and len(node.targets) == 1 and isinstance(node.targets[0], ast.Name):
            try:
                out[node.targets[0].id] = ast.literal_eval(node.value)
            except Exception:
                pass
    return out


def main():
    props = [json.loads(l) for l in open(os.path.join(VERIF, 'properties.jsonl'))]
    checks, na = [], []
    for p in props:
        pid = p['id']
        path = os.path.join(VERIF, 'checks', pid + '.py')
        ready = open(os.path.join(VERIF, 'checks', 'READY.txt')).read().split()
        if not os.path.exists(path) or pid not in ready:
            na.append({'property_id': pid, 'reason': 'check not built yet (planned: bounded exhaustive exploration, see DESIGN.md section 3)'})
            continue
        c = consts(path)
        checks.append({
            'property_id': pid,
            'quick_cmd': './vcheck %s --tier quick' % pid,
            'thorough_cmd': './vcheck %s --tier thorough' % pid,
            'evidence_file': 'evidence/%s.json' % pid,
            'replay_cmd_template': './vcheck %s --replay {path}' % pid,
            'engine': c.get('ENGINE', 'bex'),
            'level_claimed': {'category': c.get('LEVEL', 'exploration'),
                              'text': c.get('LEVEL_TEXT', c.get('RULE', '')),
                              'design_ref': 'DESIGN.md section 3, ' + pid},
            'level_note': '; '.join(c.get('ASSUME', [])) or 'bounded domains only',
            'technique': c.get('TECHNIQUE', 'bounded exhaustive enumeration of inputs/configurations against a reference model, on the real implementation'),
        })
    man = {
        'version': 1,
        'setup_cmd': './vcheck --setup',
        'hooks': {'guard': 'CVXOPT_VERIF', 'enable': 'no source hooks are needed: checks observe through the public API, user callbacks, sys.settrace and the buffer protocol',
                  'baseline_off_cmd': 'cd /repo && /venv/bin/python -m pytest -ra -q -p no:cacheprovider --timeout=900 --continue-on-collection-errors tests',
                  'source_commits': SOURCE_COMMITS, 'add_only': True},
        'engines': [
            {'name': 'bex', 'path': 'mc/engine.py', 'serves_properties': [c['property_id'] for c in checks if c['engine'] == 'bex'],
             'kind_free_text': 'bounded-exhaustive input/configuration explorer: deterministic enumeration sharded over forked crash-tolerant workers'},
            {'name': 'hist', 'path': 'mc/hist.py', 'serves_properties': [c['property_id'] for c in checks if c['engine'] == 'hist'],
             'kind_free_text': 'explicit-state BFS over operation histories, each transition calls the real method; canonical state hashing'},
            {'name': 'sched', 'path': 'mc/sched.py', 'serves_properties': [c['property_id'] for c in checks if c['engine'] == 'sched'],
             'kind_free_text': 'preemption-bounded stateless thread-schedule explorer (settrace baton scheduler)'},
            {'name': 'fault', 'path': 'mc/fault.py', 'serves_properties': [c['property_id'] for c in checks if c['engine'] == 'fault'],
             'kind_free_text': 'environment-answer (fault position) enumerator with deviation bound'},
        ],
        'checks': checks,
        'not_applicable': na,
        'notes': 'All checks build and import the working tree of /repo (mc/build.py); VERIF_REPO overrides the path for mutation runs.',
    }
    with open(os.path.join(VERIF, 'MANIFEST.json'), 'w') as f:
        json.dump(man, f, indent=1)
    print('MANIFEST.json: %d checks, %d not_applicable' % (len(checks), len(na)))


SOURCE_COMMITS = []
try:
    SOURCE_COMMITS = json.load(open(os.path.join(VERIF, 'source_commits.json')))
except Exception:
    pass

if __name__ == '__main__':
    main()
