import os, sys, json, time, hashlib, subprocess, importlib, tempfile

VERIF = os.path.dirname(os.path.dirname(os.path.abspath(__file__)))
PY = '/venv/bin/python'


def _args(argv):
    a = {'prop': None, 'tier': os.environ.get('VERIF_TIER', 'quick'), 'replay': None,
         'setup': False, 'child': None, 'out': None, 'selftest': False, 'case': None}
    it = iter(argv)
    for x in it:
        if x == '--tier':
            a['tier'] = next(it)
        elif x == '--replay':
            a['replay'] = next(it)
        elif x == '--setup':
            a['setup'] = True
        elif x == '--selftest':
            a['selftest'] = True
        elif x == '--child':
            a['child'] = next(it)
        elif x == '--out':
            a['out'] = next(it)
        elif x == '--case':
            a['case'] = next(it)
        else:
            a['prop'] = x
    return a


def child(a):
    """Runs inside the staged environment."""
    from . import engine
    flavour = a['child']
    # VERIF_SEED only selects one of four pre-verified value palettes (never sampling): any integer is reduced mod 4
    seed = int(os.environ.get('VERIF_SEED', '0') or 0) % 4
    mod = importlib.import_module('checks.' + a['prop'])
    # a check may ask for extra process-level settings of a flavour (e.g. the glibc malloc checker, which has to be
    # preloaded): the child re-executes itself once with them
    xe = getattr(mod, 'EXTRA_ENV', {}).get(flavour)
    if xe and os.environ.get('VERIF_REEXEC') != '1' and all(os.path.exists(v) for k, v in xe.items() if k == 'LD_PRELOAD'):
        env = dict(os.environ); env.update(xe); env['VERIF_REEXEC'] = '1'
        sys.stdout.flush(); sys.stderr.flush()
        os.execve(sys.executable, [sys.executable, '-m', 'mc.main'] + sys.argv[1:], env)
    res = {'flavours': list(getattr(mod, 'FLAVOURS', ('plain',))), 'flavour': flavour}
    if a['case']:
        case = json.load(open(a['case']))
        r = engine.run_one(mod, case)
        agg = engine.Agg(); agg.add(case, r)
        res['agg'] = agg.todict()
        res['agg']['total'] = 1
    else:
        # determinism gate: the first case, run twice, must give identical observations
        first = None
        for first in mod.cases(a['tier'], seed, flavour):
            break
        if first is not None and not getattr(mod, 'SKIP_DETERMINISM_GATE', False):
            r1 = engine.jdump(engine.run_one(mod, first))
            r2 = engine.jdump(engine.run_one(mod, first))
            if r1 != r2:
                print('HARNESS-ERROR: nondeterministic observation on first case', file=sys.stderr)
                res['nondeterministic'] = True
        agg = engine.explore(mod, a['tier'], seed, flavour)
        res['agg'] = agg.todict()
        res['agg']['total'] = agg.total
        it = iter(mod.cases(a['tier'], seed, flavour))
        samples = []
        last = None
        for i, c in enumerate(it):
            if i < 2:
                samples.append(c)
            last = c
        if last is not None and last not in samples:
            samples.append(last)
        res['samples'] = samples
    res['meta'] = {k: getattr(mod, k) for k in ('LEVEL', 'RULE', 'ASSUME', 'BOUNDS') if hasattr(mod, k)}
    if hasattr(mod, 'summary'):
        res['summary'] = mod.summary(res['agg'])
    with open(a['out'], 'w') as f:
        f.write(engine.jdump(res))
    return 0


def _run_child(prop, tier, flavour, casefile=None):
    from . import build
    env = build.env(flavour)
    fd, out = tempfile.mkstemp(prefix='vc-out-', dir=os.path.join(VERIF, '.cache'))
    os.close(fd)
    cmd = [PY, '-m', 'mc.main', prop, '--tier', tier, '--child', flavour, '--out', out]
    if casefile:
        cmd += ['--case', casefile]
    errlog = out + '.err'
    with open(errlog, 'w') as ef:
        p = subprocess.run(cmd, env=env, cwd=VERIF, stderr=ef)
    try:
        res = json.load(open(out))
    except Exception:
        res = None
    err = open(errlog).read()
    os.unlink(out); os.unlink(errlog)
    if env.get('VERIF_ASAN_LOG'):
        import glob
        for f in glob.glob(env['VERIF_ASAN_LOG'] + '.*'):
            try:
                os.unlink(f)
            except OSError:
                pass
    return p.returncode, res, err


def setup():
    from . import build
    os.makedirs(os.path.join(VERIF, '.cache'), exist_ok=True)
    build.stage('plain'); build.stage('asan')
    try:
        build.ensure_numpy()
    except Exception as e:
        print('numpy not installable: %s (buffer-protocol cases fall back to array/memoryview)' % e)
    print('setup ok')
    return 0


def main(argv):
    a = _args(argv)
    os.makedirs(os.path.join(VERIF, '.cache'), exist_ok=True)
    if a['child']:
        return child(a)
    if a['setup']:
        return setup()
    from . import build, findings, evidence, engine
    prop, tier = a['prop'], a['tier']
    try:
        build.ensure_numpy()        # normally done by --setup; a check started without it installs it itself
    except Exception as e:
        print('HARNESS-ERROR: numpy not installable from the offline wheelhouse: %s' % e)
        return 2
    seed = int(os.environ.get('VERIF_SEED', '0') or 0)
    t0 = time.time()
    casefile = None
    flavours = ['plain']
    if a['replay']:
        rp = json.load(open(a['replay']))
        fd, casefile = tempfile.mkstemp(prefix='vc-case-', dir=os.path.join(VERIF, '.cache'))
        os.write(fd, json.dumps(rp['case']).encode()); os.close(fd)
        flavours = [rp.get('flavour', 'plain')]
    results = []
    try:
        i = 0
        while i < len(flavours):
            fl = flavours[i]
            try:
                rc, res, err = _run_child(prop, tier, fl, casefile)
            except RuntimeError as e:
                print('BUILD-FAILED: %s' % e)
                return 2
            if res is None:
                print('HARNESS-ERROR: child for flavour %s produced no result (rc=%s)\n%s' % (fl, rc, err[-4000:]))
                return 2
            if err.strip() and os.environ.get('VERIF_VERBOSE'):
                print(err[-4000:], file=sys.stderr)
            res['stderr_tail'] = err[-2000:]
            results.append(res)
            if i == 0 and not a['replay']:
                for f2 in res['flavours']:
                    if f2 not in flavours and not os.environ.get('VERIF_COVER'):   # coverage map: plain flavour only
                        flavours.append(f2)
            i += 1
    finally:
        if casefile:
            os.unlink(casefile)
    # ---- merge
    agg = engine.Agg()
    per_flavour = {}
    nondet = False
    for res in results:
        d = res['agg']
        for v in d['viol']:
            v['flavour'] = res['flavour']
        agg.merge(d)
        per_flavour[res['flavour']] = {'evaluations': d['n'], 'cases': d['cases'], 'total_cases': d.get('total')}
        nondet = nondet or res.get('nondeterministic', False)
    meta = results[0]['meta']
    db = findings.load()
    known_hit, unknown = {}, {}
    for v in agg.viol:
        k = findings.match(prop, v['key'], db)
        if k is not None:
            known_hit.setdefault(k['key'], (k, []))[1].append(v)
        else:
            unknown.setdefault(v['key'], []).append(v)
    for key, (k, vs) in sorted(known_hit.items()):
        print('KNOWN-FINDING: property=%s %s [%d case(s), key=%s]' % (prop, k['what'], len(vs), key))
    rpdir = os.path.join(os.environ.get('VERIF_REPLAY_DIR') or os.path.join(VERIF, 'replays'), prop)
    os.makedirs(rpdir, exist_ok=True)
    nprint = 0
    for key, vs in sorted(unknown.items()):
        v = vs[0]
        blob = engine.jdump({'property': prop, 'key': key, 'case': v.get('case'), 'flavour': v.get('flavour', 'plain'),
                             'msg': v.get('msg'), 'sub': v.get('sub'), 'tier': tier, 'seed': seed})
        h = hashlib.sha1(blob.encode()).hexdigest()[:12]
        path = os.path.join(rpdir, h + '.json')
        with open(path, 'w') as f:
            f.write(blob)
        if nprint < 25:
            print('VIOLATION property=%s replay=%s' % (prop, path))
            print('   key=%s (%d case(s)) %s' % (key, len(vs), str(v.get('msg'))[:600].replace('\n', ' | ')))
        nprint += 1
    if nprint > 25:
        print('   ... %d further distinct violation keys' % (nprint - 25))
    if nondet:
        print('HARNESS-ERROR: determinism gate failed (same case, two runs, different observations)')
    wall = time.time() - t0
    if not a['replay']:
        samples = results[0].get('samples', [])
        for key, (k, vs) in sorted(known_hit.items()):
            samples.append({'known_finding': key, 'case': vs[0].get('case'), 'sub': vs[0].get('sub')})
        cov = {'evaluations': agg.n, 'distinct_nontrivial': agg.nontrivial, 'rule': meta.get('RULE', ''),
               'samples': samples[:12], 'exhaustive': not agg.extra.get('truncated_after_violations'),
               'cases': agg.cases, 'outcomes': agg.outcomes, 'max_observed_error': agg.maxerr,
               'per_flavour': per_flavour, 'bounds': meta.get('BOUNDS', {}).get(tier, meta.get('BOUNDS', '')),
               'known_findings_hit': sorted(known_hit), 'extra': agg.extra,
               'coverage_marks': len(agg.cover)}
        if meta.get('LEVEL') == 'model_checking':
            cov['states'] = agg.states
            cov['transitions'] = agg.transitions
            cov['traces_validated_against_impl'] = agg.traces
        for res in results:
            if 'summary' in res and res['flavour'] == 'plain':
                cov['summary'] = res['summary']
        evidence.write(prop, tier, seed, meta.get('LEVEL', 'exploration'), cov, wall,
                       len(unknown), meta.get('ASSUME', []))
    print('%s tier=%s seed=%d evaluations=%d nontrivial=%d states=%d transitions=%d violations=%d known=%d wall=%.1fs'
          % (prop, tier, seed, agg.n, agg.nontrivial, agg.states, agg.transitions, len(unknown), len(known_hit), wall))
    if unknown or nondet:
        return 1
    return 0


if __name__ == '__main__':
    sys.exit(main(sys.argv[1:]))
