"""Development aid: which lines of cvxopt does the registered exploration execute at all?

  python3 -m mc.covmap run  <dir> [C01 C02 ...] [--tier quick]   run the checks with line coverage on (python: sys.monitoring
                                                                 in every worker; C: a --coverage build of the four modules)
  python3 -m mc.covmap report <dir> [--min 3]                    list the executable lines no check reached, per file, as ranges

A line that no case of any check executes cannot be judged by any oracle: every such range is a blind spot whatever the
bounds say.  The report is what the case generators are extended from (DESIGN.md section 5, "coverage map").  It is not a
check and decides nothing; evidence and replays of these runs go to a scratch directory, not to /verif/evidence.
"""
import os, sys, json, glob, subprocess, shutil, re

VERIF = os.path.dirname(os.path.dirname(os.path.abspath(__file__)))
ALL = ['C%02d' % i for i in range(1, 21)]


def run(d, props, tier):
    d = os.path.abspath(d)
    os.makedirs(d, exist_ok=True)
    env = dict(os.environ, VERIF_COVER=d, VERIF_EVIDENCE_DIR=os.path.join(d, 'evidence'),
               VERIF_REPLAY_DIR=os.path.join(d, 'replays'))
    for p in props:
        c = subprocess.run([os.path.join(VERIF, 'vcheck'), p, '--tier', tier], cwd=VERIF, env=env,
                           stdout=subprocess.PIPE, stderr=subprocess.STDOUT)
        print(p, 'exit', c.returncode, c.stdout.decode().strip().splitlines()[-1][:200])
        sys.stdout.flush()


def _ranges(lines):
    out = []
    for ln in sorted(lines):
        if out and ln <= out[-1][1] + 1:
            out[-1][1] = ln
        else:
            out.append([ln, ln])
    return out


def _py_exec_lines(path):
    src = open(path).read()
    lines = set()

    def walk(code):
        for _, _, ln in code.co_lines():
            if ln:
                lines.add(ln)
        for c in code.co_consts:
            if hasattr(c, 'co_lines'):
                walk(c)
    walk(compile(src, path, 'exec'))
    return lines, src.splitlines()


def report(d, minlen, repo='/repo'):
    d = os.path.abspath(d)
    hits = {}
    for f in glob.glob(os.path.join(d, 'py-*.json')):
        for fn, ln in json.load(open(f)):
            hits.setdefault(fn, set()).add(ln)
    out = {}
    for fn in ['coneprog.py', 'cvxprog.py', 'misc.py', 'modeling.py', 'solvers.py', 'printing.py', '__init__.py']:
        path = os.path.join(repo, 'src/python', fn)
        ex, src = _py_exec_lines(path)
        for label in [fn] + ([fn + '<use_C=False>'] if fn == 'misc.py' else []):
            h = hits.get(label, set())
            miss = ex - h
            # blank / comment / docstring lines between two missed lines do not break a range
            out[label] = {'executable': len(ex), 'hit': len(ex & h), 'missed': _ranges_src(miss, ex, src)}
    # ---- C
    gd = os.path.join(d, 'gcda')
    work = os.path.join(d, 'gcov-work')
    shutil.rmtree(work, ignore_errors=True)
    os.makedirs(work)
    for gcda in [os.path.join(r, f) for r, _, fs in os.walk(gd) for f in fs if f.endswith('.gcda')]:
        base = os.path.basename(gcda)[:-5]
        stages = glob.glob(os.path.join(VERIF, '.cache', 'stage-gcov-*', 'cvxopt', base + '.gcno'))
        if not stages:
            continue
        shutil.copy(stages[-1], work)
        shutil.copy(gcda, work)
    for gcda in glob.glob(os.path.join(work, '*.gcda')):
        subprocess.run(['gcov', '-b', '-o', work, gcda], cwd=work, stdout=subprocess.DEVNULL, stderr=subprocess.DEVNULL)
    for g in sorted(glob.glob(os.path.join(work, '*.c.gcov'))):
        fn = os.path.basename(g)[:-5]
        if fn.startswith('verif_'):
            continue
        ex, miss, src = set(), set(), {}
        for l in open(g, errors='replace'):
            m = re.match(r'\s*([^:]+):\s*(\d+):(.*)$', l)
            if not m:
                continue
            cnt, ln, text = m.group(1).strip(), int(m.group(2)), m.group(3)
            if ln == 0:
                continue
            src[ln] = text
            if cnt == '-':
                continue
            ex.add(ln)
            if cnt.startswith('#####') or cnt.startswith('====='):
                miss.add(ln)
        srcl = [src.get(i, '') for i in range(1, max(src) + 1)] if src else []
        out[fn] = {'executable': len(ex), 'hit': len(ex - miss), 'missed': _ranges_src(miss, ex, srcl)}
    with open(os.path.join(d, 'report.json'), 'w') as f:
        json.dump(out, f, indent=1)
    for fn, r in out.items():
        print('== %s: %d of %d executable lines reached (%.1f%%)' % (fn, r['hit'], r['executable'],
                                                                      100.0 * r['hit'] / max(1, r['executable'])))
        for a, b, n, text in r['missed']:
            if n >= minlen:
                print('   %5d-%-5d (%3d)  %s' % (a, b, n, text.strip()[:110]))


def _ranges_src(miss, ex, src):
    """ranges of missed executable lines; non-executable lines in between are bridged"""
    out = []
    cur = None
    for ln in range(1, len(src) + 2):
        if ln in miss:
            if cur is None:
                cur = [ln, ln, 0, src[ln - 1] if ln - 1 < len(src) else '']
            cur[1] = ln
            cur[2] += 1
        elif ln in ex:
            if cur is not None:
                out.append(tuple(cur)); cur = None
    if cur is not None:
        out.append(tuple(cur))
    return out


if __name__ == '__main__':
    a = sys.argv[1:]
    if a[0] == 'run':
        tier = 'quick'
        if '--tier' in a:
            i = a.index('--tier'); tier = a[i + 1]; del a[i:i + 2]
        run(a[1], a[2:] or ALL, tier)
    else:
        minlen = 1
        if '--min' in a:
            i = a.index('--min'); minlen = int(a[i + 1]); del a[i:i + 2]
        report(a[1], minlen)
