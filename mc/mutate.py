"""Run checks against a mutated scratch copy of the repository.

  python -m mc.mutate <patch.diff> Cnn [Cmm ...] [--tier quick]
  python -m mc.mutate --sed 's/old/new/' --file src/python/misc.py Cnn

The scratch copy (src/ only - that is all the staging step reads) lives under
/var/tmp and is removed afterwards, together with its cached build.
"""
import os, sys, shutil, subprocess, tempfile, glob

VERIF = os.path.dirname(os.path.dirname(os.path.abspath(__file__)))


def main(argv):
    patch = None
    props = []
    tier = 'quick'
    pyedit = None
    it = iter(argv)
    for a in it:
        if a == '--tier':
            tier = next(it)
        elif a == '--py':
            pyedit = next(it)     # python snippet: receives dict `root`, edits files
        elif a.endswith('.diff') or a.endswith('.patch'):
            patch = os.path.abspath(a)
        else:
            props.append(a)
    tmp = tempfile.mkdtemp(prefix='cvxmut-', dir='/var/tmp')
    try:
        shutil.copytree('/repo/src', os.path.join(tmp, 'src'))
        if patch:
            r = subprocess.run(['patch', '-p1', '-s', '-i', patch], cwd=tmp)
            if r.returncode:
                print('PATCH FAILED'); return 3
        if pyedit:
            exec(open(pyedit).read(), {'root': tmp})
        env = dict(os.environ, VERIF_REPO=tmp, VERIF_EVIDENCE_DIR=os.path.join(tmp, 'evidence'),
                   VERIF_REPLAY_DIR=os.path.join(tmp, 'replays'))
        rc = 0
        for p in props:
            r = subprocess.run([os.path.join(VERIF, 'vcheck'), p, '--tier', tier], env=env, cwd=VERIF)
            print('== %s exit %d' % (p, r.returncode))
            rc = max(rc, r.returncode)
        return rc
    finally:
        from mc import build
        for fl in ('plain', 'asan'):
            try:
                h = build.tree_hash(tmp, fl)
                shutil.rmtree(os.path.join(build.CACHE, 'stage-%s-%s' % (fl, h)), ignore_errors=True)
            except Exception:
                pass
        shutil.rmtree(tmp, ignore_errors=True)


if __name__ == '__main__':
    sys.exit(main(sys.argv[1:]))
