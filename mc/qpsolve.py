"""Harness and oracle for coneqp / qp (C03, also used by C05, C06, C09, C10).

Instance: {P (list of rows, symmetric PSD), q, G (cols), h, dims, A (rows), b}.
Config:   entry 'coneqp'|'qp', storage, kkt (None|'ldl'|'ldl2'|'chol'|'chol2'|'ref'), opts, init (list of keys of
          {x,s,y,z} supplied in initvals), junk (value for the strict upper triangle of the stored P and of the
          's' blocks of G, h), operators (P, G, A given as Python functions; needs kkt='ref'), noG (G, h omitted).
"""
import math
from mc.ref import cone as R
from mc.ref import lpexact
from mc import dom, solve
from mc.solve import Oracle, lower_sym, put_junk, INFL, RECOMP_ABS, RECOMP_REL, DEFAULTS


def Px(P, x):
    n = len(x)
    return [sum(P[i][j] * x[j] for j in range(n)) for i in range(n)]


def gen_P(n, variant):
    """P = L L' for a lower-triangular integer L; cycles through ranks 0..n as variant varies."""
    pal = [1, 0, -1, 2]
    L = [[0] * n for _ in range(n)]
    k = variant
    for j in range(n):
        for i in range(j, n):
            L[i][j] = pal[(k + 2 * i + 3 * j + (k // 4)) % 4]
            k += 1
    if variant % 5 == 4:
        L = [[0] * n for _ in range(n)]          # P = 0
    if variant % 5 == 3 and n > 1:
        for i in range(n):
            L[i][n - 1] = 0                       # rank deficient
    return [[float(sum(L[i][k] * L[j][k] for k in range(n))) for j in range(n)] for i in range(n)]


def planted_qp(d, n, p, variant):
    """strictly feasible cone QP: h = G x0 + s0, b = A x0, q from a palette.  None if rank assumptions fail
    (decided exactly: rank(A) = p and rank([P; A; G]) = n)."""
    N = R.cdim(d)
    G = solve.gen_G(d, n, variant)
    A = solve.gen_A(p, n, variant)
    P = gen_P(n, variant)
    inst = {'dims': d, 'G': G, 'A': A, 'c': [0.0] * n, 'h': [0.0] * N, 'b': [0.0] * p}
    rows = solve.eff_rows(inst) + [list(r) for r in A] + [list(r) for r in P]
    if p and lpexact.rank(A) != p:
        return None
    if lpexact.rank(rows) != n if rows else n != 0:
        return None
    xpal = [1.0, -2.0, 0.5, 3.0]
    x0 = [xpal[(j + variant) % 4] for j in range(n)]
    s0 = lower_sym(dom.interior(d, 0, variant), d)
    Gx0 = R.Gx(G, x0, N)
    h = [a + b for a, b in zip(Gx0, s0)]
    b = [sum(A[i][j] * x0[j] for j in range(n)) for i in range(p)]
    q = [xpal[(j + 2 * variant + 1) % 4] for j in range(n)]
    return {'P': P, 'q': q, 'G': G, 'h': h, 'dims': d, 'A': A, 'b': b, 'c': q, 'x0': x0}


def build(inst, cfg):
    from cvxopt import matrix, sparse, spmatrix
    from mc import cvx
    d = inst['dims']
    n = len(inst['q'])
    N = R.cdim(d)
    p = len(inst['A'])
    Pst = [list(r) for r in inst['P']]
    Gc = [list(c) for c in inst['G']]
    h = list(inst['h'])
    if cfg.get('junk') is not None:
        for i in range(n):
            for j in range(i + 1, n):
                Pst[i][j] = cfg['junk']
        Gc = [put_junk(c, d, cfg['junk']) for c in Gc]
        h = put_junk(h, d, cfg['junk'] - 1.0)
    P = matrix([Pst[i][j] for j in range(n) for i in range(n)], (n, n), 'd')
    G = cvx.from_cols(Gc, N)
    A = matrix([inst['A'][i][j] for j in range(n) for i in range(p)], (p, n), 'd') if p else matrix(0.0, (0, n))
    if cfg.get('storageP', cfg.get('storage')) == 'sparse':
        P = sparse(P)
    if cfg.get('storageG', cfg.get('storage')) == 'sparse':
        G = sparse(G)
    if cfg.get('storageA', cfg.get('storage')) == 'sparse':
        A = sparse(A) if p else spmatrix([], [], [], (0, n), 'd')
    return {'P': P, 'q': cvx.dmat(inst['q']), 'G': G, 'h': cvx.dmat(h), 'A': A, 'b': cvx.dmat(inst['b']),
            'dims': {'l': d['l'], 'q': list(d['q']), 's': list(d['s'])}}


def initvals(inst, cfg):
    from mc import cvx
    keys = cfg.get('init')
    if keys is None:
        return None
    d = inst['dims']
    n, p = len(inst['q']), len(inst['A'])
    iv = {}
    if 'x' in keys:
        iv['x'] = cvx.dmat([0.5 * (j + 1) for j in range(n)])
    if 's' in keys:
        iv['s'] = cvx.dmat(lower_sym(dom.interior(d, 0, 2), d))
    if 'y' in keys:
        iv['y'] = cvx.dmat([0.25 * (i + 1) for i in range(p)])
    if 'z' in keys:
        iv['z'] = cvx.dmat(lower_sym(dom.interior(d, 0, 3), d))
    bad = cfg.get('badstart')
    if bad:
        iv[bad[0]] = iv[bad[0]] * (-1.0 if bad[1] == 'neg' else 0.0)      # see solve.starts
    return iv


def ref_kkt_qp(inst, counter=None, fail_factor=None, fail_solve=None, monitor=None):
    """Callable KKT solver for coneqp written with the reference algebra: [P A' G'W^-1; A 0 0; W^-T G 0 -I]."""
    from mc import cvx
    d = inst['dims']
    n = len(inst['q'])
    p = len(inst['A'])
    N = R.cdim(d)
    Np = R.cdim_packed(d)
    G, A, P = inst['G'], inst['A'], inst['P']
    cnt = counter if counter is not None else {}
    cnt.setdefault('factor', 0); cnt.setdefault('solve', 0)

    def kktsolver(W):
        k = cnt['factor']; cnt['factor'] += 1
        if fail_factor is not None and k in fail_factor:
            raise ArithmeticError('injected failure in factor #%d' % k)
        Wr = cvx.W_to_ref(W)
        if monitor is not None:
            monitor(Wr, W)
        Gs = [R.pack(R.apply_W(col, Wr, 'T', 'I'), d) for col in G]
        dim = n + p + Np
        K = [[0.0] * dim for _ in range(dim)]
        for i in range(n):
            for j in range(n):
                K[i][j] = P[i][j]
        for i in range(p):
            for j in range(n):
                K[n + i][j] = K[j][n + i] = A[i][j]
        for j in range(n):
            for i in range(Np):
                K[n + p + i][j] = K[j][n + p + i] = Gs[j][i]
        for i in range(Np):
            K[n + p + i][n + p + i] = -1.0

        def solve_(x, y, z):
            j = cnt['solve']; cnt['solve'] += 1
            if fail_solve is not None and j in fail_solve:
                raise ArithmeticError('injected failure in solve #%d' % j)
            rhs = list(x) + list(y) + R.pack(R.apply_W(list(z), Wr, 'T', 'I'), d)
            u = R.solve_dense(K, rhs)
            if u is None:
                raise ArithmeticError('singular KKT matrix (reference solver)')
            if n:
                x[:] = cvx.dmat(u[:n])
            if p:
                y[:] = cvx.dmat(u[n:n + p])
            if N:
                z[:] = cvx.dmat(lower_sym(R.unpack(u[n + p:], d), d))
        return solve_
    return kktsolver


def operators(inst):
    """P, G, A as Python functions with the documented signatures."""
    from cvxopt import matrix, blas
    from mc import cvx
    d = inst['dims']
    n, p, N = len(inst['q']), len(inst['A']), R.cdim(d)
    calls = {'P': 0, 'G': 0, 'A': 0}

    def fP(x, y, alpha=1.0, beta=0.0):
        calls['P'] += 1
        v = Px(inst['P'], list(x))
        for i in range(n):
            y[i] = alpha * v[i] + (beta * y[i] if beta != 0.0 else 0.0)

    def fG(x, y, alpha=1.0, beta=0.0, trans='N'):
        calls['G'] += 1
        if trans == 'N':
            v = R.Gx(inst['G'], list(x), N)
        else:
            v = R.GTz(inst['G'], list(x), d)
        for i in range(len(v)):
            y[i] = alpha * v[i] + (beta * y[i] if beta != 0.0 else 0.0)

    def fA(x, y, alpha=1.0, beta=0.0, trans='N'):
        calls['A'] += 1
        xs = list(x)
        if trans == 'N':
            v = [sum(inst['A'][i][j] * xs[j] for j in range(n)) for i in range(p)]
        else:
            v = [sum(inst['A'][i][j] * xs[i] for i in range(p)) for j in range(n)]
        for i in range(len(v)):
            y[i] = alpha * v[i] + (beta * y[i] if beta != 0.0 else 0.0)
    return fP, fG, fA, calls


def call(inst, cfg, kktsolver_obj=None):
    from cvxopt import solvers
    a = build(inst, cfg)
    opts = {'show_progress': False}
    opts.update(cfg.get('opts') or {})
    kkt = cfg.get('kkt')
    if kkt == 'ref':
        kkt = kktsolver_obj if kktsolver_obj is not None else ref_kkt_qp(inst)
    # how the option set reaches the solver: per call (options=..., the default) or through the global solvers.options with
    # no options= keyword at all (cfg['via'] == 'global'); cfg['prelude'] = option set of a call made immediately before
    # through the same entry point with per-call options (its result is discarded): the judged call must not inherit it
    solvers.options.clear()
    if cfg.get('prelude') is not None:
        call(inst, dict(cfg, prelude=None, via=None, opts=cfg['prelude']))
        if cfg.get('via') != 'global':
            solvers.options.clear()          # (a leak into the globals is then only visible to the 'global' route)
    okw = {'options': opts}
    if cfg.get('poison') is not None:
        solvers.options.update(cfg['poison'])    # global settings that a call with its own options= dictionary must not see
    if cfg.get('via') == 'global':
        for k_, v_ in opts.items():
            solvers.options.setdefault(k_, v_)   # what a leaking prelude left behind stays in place
        okw = {}
    iv = initvals(inst, cfg)
    d = a['dims']
    N = R.cdim(d)
    try:
        if cfg.get('entry', 'coneqp') == 'coneqp':
            if cfg.get('operators'):
                fP, fG, fA, calls = operators(inst)
                sol = solvers.coneqp(fP, a['q'], fG, a['h'], d, fA, a['b'], initvals=iv, kktsolver=kkt, **okw)
            elif cfg.get('noG') and N == 0:
                sol = solvers.coneqp(a['P'], a['q'], A=a['A'], b=a['b'], initvals=iv, kktsolver=kkt, **okw)
            else:
                sol = solvers.coneqp(a['P'], a['q'], a['G'], a['h'], d, a['A'], a['b'], initvals=iv, kktsolver=kkt,
                                     **okw)
        else:
            if cfg.get('noG') and N == 0:
                sol = solvers.qp(a['P'], a['q'], A=a['A'], b=a['b'], kktsolver=kkt, initvals=iv, **okw)
            else:
                sol = solvers.qp(a['P'], a['q'], a['G'], a['h'], a['A'], a['b'], kktsolver=kkt, initvals=iv, **okw)
    except Exception as e:
        return e, a
    return sol, a


def quantities(inst, x, s, y, z):
    d = inst['dims']
    G, A, P = inst['G'], inst['A'], inst['P']
    q_, h, b = inst['q'], lower_sym(inst['h'], d), inst['b']
    n, p, N = len(q_), len(A), R.cdim(d)
    Pxv = Px(P, x)
    Gxv = R.Gx(G, x, N)
    Ax = [sum(A[i][j] * x[j] for j in range(n)) for i in range(p)]
    GTz = R.GTz(G, z, d)
    ATy = [sum(A[i][j] * y[i] for i in range(p)) for j in range(n)]
    o = {}
    o['resx0'] = max(1.0, R.nrm2(q_)); o['resy0'] = max(1.0, R.nrm2(b)); o['resz0'] = max(1.0, R.snrm2(h, d))
    o['resx'] = R.nrm2([Pxv[j] + GTz[j] + ATy[j] + q_[j] for j in range(n)])
    ry = [Ax[i] - b[i] for i in range(p)]
    rz = [Gxv[i] + s[i] - h[i] for i in range(N)]
    o['resy'] = R.nrm2(ry)
    o['resz'] = R.snrm2(rz, d)
    o['pcost'] = 0.5 * R.dot(x, Pxv) + R.dot(q_, x)
    o['gap'] = R.sdot(s, z, d)
    o['dcost'] = o['pcost'] + R.dot(y, ry) + R.sdot(z, [Gxv[i] - h[i] for i in range(N)], d)
    o['ts'] = -R.max_step(s, d) if N else None
    o['tz'] = -R.max_step(z, d) if N else None
    o['ns'], o['nz'] = R.snrm2(s, d), R.snrm2(z, d)
    o['nx'] = R.nrm2(x)
    return o


def check_optimal(O, inst, sol, cfg, status='optimal'):
    d = inst['dims']
    opts = dict(DEFAULTS); opts.update(cfg.get('opts') or {})
    x, s, y, z = solve.stacked(sol, d, 'conelp')
    want = {'x': True, 's': True, 'y': True, 'z': True}
    inst2 = dict(inst); inst2['c'] = inst['q']
    if not solve.shape_checks(O, inst2, sol, 'conelp', x, s, y, z, want):
        return
    o = quantities(inst, x, s, y, z)
    N = R.cdim(d)
    sub = {'x': x, 's': s, 'y': y, 'z': z}
    pres = max(o['resy'] / o['resy0'], o['resz'] / o['resz0'])
    dres = o['resx'] / o['resx0']
    gap = o['gap']
    relgap = solve.relgap_rule(gap, o['pcost'], o['dcost'])
    pn = max(1.0, max(abs(t) for r in inst['P'] for t in r) if inst['P'] else 1.0)
    if status == 'optimal':
        ft = opts['feastol'] * INFL + 1e-10 + 1e-13 * pn * o['nx']
        if N == 0 and 1e-13 * pn * o['nx'] > 0.01 * opts['feastol']:
            # huge x: float recomputation is dominated by rounding; decide the residuals in exact arithmetic
            Fr = lpexact.Fr
            n_, p_ = len(x), len(y)
            xf, yf = [Fr(t) for t in x], [Fr(t) for t in y]
            rx = [sum(Fr(inst['P'][i][j]) * xf[j] for j in range(n_)) + sum(Fr(inst['A'][k][i]) * yf[k] for k in range(p_))
                  + Fr(inst['q'][i]) for i in range(n_)]
            ry = [sum(Fr(inst['A'][k][j]) * xf[j] for j in range(n_)) - Fr(inst['b'][k]) for k in range(p_)]
            dres = math.sqrt(float(sum(t * t for t in rx))) / o['resx0']
            pres = math.sqrt(float(sum(t * t for t in ry))) / o['resy0']
            ft = opts['feastol'] * INFL + 1e-10
        O.err('pres/feastol', pres / opts['feastol']); O.err('dres/feastol', dres / opts['feastol'])
        nA = math.sqrt(sum(t * t for r in inst['A'] for t in r))
        nG = math.sqrt(sum(t * t for col in inst['G'] for t in col))
        nP = math.sqrt(sum(t * t for r in inst['P'] for t in r))
        ny = R.nrm2(y) if y else 0.0
        bnd_p = solve.RND * ((nA + nG) * o['nx'] + o['ns'])
        bnd_d = solve.RND * (nP * o['nx'] + nG * o['nz'] + nA * ny)
        # (huge iterates: see solve.resid_ok - accepted only if the solver's own reported residual meets the tolerance)
        if not solve.resid_ok(pres, ft, sol.get('primal infeasibility'), bnd_p):
            O.bad('optimal:primal-residual', 'primal residual %.3g > feastol %.3g' % (pres, opts['feastol']), sub)
        if not solve.resid_ok(dres, ft, sol.get('dual infeasibility'), bnd_d):
            O.bad('optimal:dual-residual', 'dual residual ||Px+G\'z+A\'y+q||/max(1,||q||) = %.3g > feastol %.3g'
                  % (dres, opts['feastol']), sub)
        tiny = 1e-9 * max(1.0, o['ns'], o['nz'])
        if N and not o['ts'] >= -tiny:
            O.bad('optimal:s-outside-cone', 's outside the cone (margin %.3g)' % o['ts'], sub)
        if N and not o['tz'] >= -tiny:
            O.bad('optimal:z-outside-cone', 'z outside the cone (margin %.3g)' % o['tz'], sub)
        gscale = o['ns'] * o['nz'] if N else 0.0
        at = opts['abstol'] * INFL + RECOMP_ABS * max(1.0, gscale)
        cs_ = max(1.0, pn * o['nx'] ** 2 + R.nrm2(inst['q']) * o['nx']) + gscale + o['nz'] * o['resz0']
        if not (gap <= at or solve.rel_ok(gap, o['pcost'], o['dcost'], opts['reltol'] * INFL + 1e-9, 1e-12 * cs_)):
            O.bad('optimal:gap', 'gap %.3g > abstol %.3g and relative gap %r > reltol %.3g'
                  % (gap, opts['abstol'], relgap, opts['reltol']), sub)
    gscale = o['ns'] * o['nz'] if N else 0.0
    cs = max(1.0, pn * o['nx'] ** 2 + R.nrm2(inst['q']) * o['nx'])
    pre = '' if status == 'optimal' else 'unknown:'
    O.close(pre + 'field:primal objective', 'primal objective', sol.get('primal objective'), o['pcost'], cs, sub)
    O.close(pre + 'field:dual objective', 'dual objective', sol.get('dual objective'), o['dcost'],
            cs + gscale + o['nz'] * o['resz0'], sub)
    if N:
        # the solver reports lambda'lambda; for 'q'/'s' blocks it equals s'z only up to the conditioning of the
        # scaling (~ sqrt(|s||z|/gap)) accumulated over the iterations: a small part of the gap itself
        grel = solve.RECOMP_REL if not (d['q'] or d['s']) else 5e-3
        O.close(pre + 'field:gap', 'gap', sol.get('gap'), gap, gscale, sub, rel=grel)
        O.close(pre + 'field:primal slack', 'primal slack', sol.get('primal slack'), o['ts'], max(1.0, o['ns']), sub)
        O.close(pre + 'field:dual slack', 'dual slack', sol.get('dual slack'), o['tz'], max(1.0, o['nz']), sub)
        rg = sol.get('relative gap')
        if rg is not None and relgap is not None:
            denom = -o['pcost'] if o['pcost'] < 0.0 else o['dcost']
            # a denominator at rounding level makes the quotient meaningless (optimal value 0)
            if not abs(denom) <= 1e-9 * (cs + gscale + o['nz'] * o['resz0']):
                O.close(pre + 'field:relative gap', 'relative gap', rg, relgap, gscale / max(abs(denom), 1e-300), sub,
                        rel=max(1e-5, grel))
        elif (rg is None) != (relgap is None):
            if not (abs(o['pcost']) <= 1e-9 * cs or abs(o['dcost']) <= 1e-9 * cs):
                O.bad(pre + 'field:relative gap', 'relative gap: reported %r recomputed %r' % (rg, relgap), sub)
    else:
        # documented result shape of the problem without inequalities
        if sol.get('gap') != 0.0:
            O.bad(pre + 'field:gap', 'gap %r for a problem without inequalities (s, z empty)' % sol.get('gap'), sub)
    O.close(pre + 'field:primal infeasibility', 'primal infeasibility', sol.get('primal infeasibility'), pres,
            max(1.0, o['ns'], o['nx']) * 1e-3, sub, rel=1e-3)
    O.close(pre + 'field:dual infeasibility', 'dual infeasibility', sol.get('dual infeasibility'), dres,
            max(1.0, o['nz'], pn * o['nx']) * 1e-3, sub, rel=1e-3)
    it = sol.get('iterations')
    if not isinstance(it, int) or it < 0 or it > opts['maxiters']:
        O.bad(pre + 'field:iterations', 'iterations = %r with maxiters = %r' % (it, opts['maxiters']), sub)
    return o


def exact_eq_qp(inst):
    """Exact solution of the equality-constrained QP (no inequalities) over the rationals, or None if the KKT
    matrix [P A'; A 0] is singular."""
    Fr = lpexact.Fr
    n, p = len(inst['q']), len(inst['A'])
    K = [[Fr(0)] * (n + p) for _ in range(n + p)]
    for i in range(n):
        for j in range(n):
            K[i][j] = Fr(inst['P'][i][j])
    for i in range(p):
        for j in range(n):
            K[n + i][j] = K[j][n + i] = Fr(inst['A'][i][j])
    rhs = [-Fr(t) for t in inst['q']] + [Fr(t) for t in inst['b']]
    u = lpexact.solve_square(K, rhs)
    if u is None:
        return None
    x = u[:n]
    val = sum(Fr(inst['P'][i][j]) * x[i] * x[j] for i in range(n) for j in range(n)) / 2 + sum(Fr(inst['q'][j]) * x[j] for j in range(n))
    return {'x': [float(t) for t in x], 'y': [float(t) for t in u[n:]], 'value': float(val)}
