"""Shared machinery for the cone-LP solver checks (C01, C02, C05, C06, C07, C09, C10).

An *instance* is a JSON-able dict  {c, G (list of columns), h, dims, A (list of rows), b}.
A *configuration* says how the instance is presented to cvxopt:
  entry      'conelp' | 'lp' | 'socp' | 'sdp'
  storage    'dense' | 'sparse'
  kkt        None | 'ldl' | 'ldl2' | 'qr' | 'chol' | 'chol2' | 'ref' (callable reference KKT solver)
  opts       dict of per-call options (show_progress is always False)
  start      None | 'both' | 'primal' | 'dual'   (interior start points supplied)
  junk       None | float   value written into the strict upper triangles of 's' blocks of G and h
  solver     None | 'glpk' | 'dsdp'
The oracles recompute everything from the *caller's* data with mc.ref.cone (plain Python).
"""
import math
from mc.ref import cone as R
from mc.ref import lpexact
from mc import dom

DEFAULTS = {'abstol': 1e-7, 'reltol': 1e-6, 'feastol': 1e-7, 'maxiters': 100}

# tolerance classes (see DESIGN 1.3): value reported by the solver vs. value recomputed from the returned
# vectors.  REL is relative to the larger of the two numbers, ABS is relative to the magnitude of the terms summed.
RECOMP_REL = 1e-6
RECOMP_ABS = 1e-9
INFL = 1.0 + 1e-6
RND = 1e-13           # generous multiple of the unit roundoff for residual evaluations


# ------------------------------------------------------------------------------------------------ instances
def lower_sym(v, dims):
    """copy of v with 's' blocks symmetrised from the lower triangle."""
    v = list(v)
    for kind, off, m in R.blocks(dims):
        if kind == 's':
            for j in range(m):
                for i in range(j + 1, m):
                    v[off + i * m + j] = v[off + j * m + i]
    return v


def put_junk(v, dims, junk):
    v = list(v)
    for kind, off, m in R.blocks(dims):
        if kind == 's':
            for j in range(m):
                for i in range(j):
                    v[off + j * m + i] = junk
    return v


def eff_rows(inst):
    """Rows of the effective linear map x -> svec(G x) (packed, exact for integer data up to the sqrt(2)
    factor which does not affect rank): used for exact rank decisions."""
    d = inst['dims']
    n = len(inst['c'])
    N = R.cdim(d)
    rows = []
    keep = []
    for kind, off, m in R.blocks(d):
        if kind != 's':
            keep += list(range(off, off + m))
        else:
            for j in range(m):
                for i in range(j, m):
                    keep.append(off + j * m + i)
    for i in keep:
        rows.append([inst['G'][j][i] for j in range(n)])
    return rows


def _sweights(d):
    """weights of the S inner product per unpacked coordinate (lower triangle: 1 on the diagonal, 2 below,
    0 above), so that <u,v>_S = sum w_i u_i v_i for vectors whose 's' blocks are read from the lower triangle."""
    w = [0] * R.cdim(d)
    for kind, off, m in R.blocks(d):
        if kind != 's':
            for i in range(m):
                w[off + i] = 1
        else:
            for j in range(m):
                w[off + j * m + j] = 1
                for i in range(j + 1, m):
                    w[off + j * m + i] = 2
    return w


def rank_ok(inst):
    n = len(inst['c'])
    A = inst['A']
    p = len(A)
    if p and lpexact.rank(A) != p:
        return False
    rows = eff_rows(inst) + [list(r) for r in A]
    if not rows:
        return n == 0
    return lpexact.rank(rows) == n


_PAL = [1, -1, 2, 0, -2, 1, 3, -1, 0, 1]


def gen_G(d, n, variant):
    N = R.cdim(d)
    cols = []
    for j in range(n):
        col = [float(_PAL[(i * (j + 2) + 3 * j + variant * (i + 1) + (i * i) // 2) % len(_PAL)]) for i in range(N)]
        cols.append(lower_sym(col, d))
    return cols


def gen_A(p, n, variant):
    return [[float(_PAL[(2 * i + 3 * j + variant + 1) % len(_PAL)]) for j in range(n)] for i in range(p)]


def planted(d, n, p, variant, kind='strict'):
    """Planted cone LP.  kind:
      'strict'   s0, z0 strictly interior  => strictly primal and dual feasible, optimal value inside
                 the weak-duality bracket [-h'z0-b'y0, c'x0]
      'pinf'     primal infeasible with strictly interior certificate z0
      'dinf'     dual infeasible (unbounded) with strictly interior ray s0
    Returns None when the generated G, A violate the rank assumptions (decided exactly)."""
    N = R.cdim(d)
    G = gen_G(d, n, variant)
    A = gen_A(p, n, variant)
    inst = {'dims': d, 'G': G, 'A': A, 'c': [0.0] * n, 'h': [0.0] * N, 'b': [0.0] * p}
    if not rank_ok(inst):
        return None
    xpal = [1.0, -2.0, 0.5, 3.0]
    x0 = [xpal[(j + variant) % 4] for j in range(n)]
    y0 = [xpal[(i + variant + 1) % 4] for i in range(p)]
    s0 = lower_sym(dom.interior(d, 0, variant), d)
    z0 = lower_sym(dom.interior(d, 0, variant + 1), d)
    Gx0 = R.Gx(G, x0, N)
    GTz0 = R.GTz(G, z0, d)
    ATy0 = [sum(A[i][j] * y0[i] for i in range(p)) for j in range(n)]
    Ax0 = [sum(A[i][j] * x0[j] for j in range(n)) for i in range(p)]
    if kind == 'strict':
        inst['h'] = [a + b for a, b in zip(Gx0, s0)]
        inst['b'] = Ax0
        inst['c'] = [-(a + b) for a, b in zip(GTz0, ATy0)]
        inst['bracket'] = [-(R.sdot(inst['h'], z0, d) + R.dot(inst['b'], y0)), R.dot(inst['c'], x0)]
        inst['truth'] = 'optimal'
    elif kind == 'pinf':
        # make G'z0 + A'y0 = 0 by the rank-one correction G := G - z0 (G'z0 + A'y0)'/<z0,z0>, carried out in
        # exact rational arithmetic so that the rank assumptions can be decided exactly afterwards
        F = lpexact.Fr
        z0f = [F(t) for t in z0]
        wts = _sweights(d)
        zz = sum(w * a * a for w, a in zip(wts, z0f))
        if zz == 0:
            return None
        Gf = [[F(t) for t in col] for col in G]
        r = [sum(w * a * b for w, a, b in zip(wts, Gf[j], z0f)) + sum(F(A[i][j]) * F(y0[i]) for i in range(p))
             for j in range(n)]
        Gf = [[Gf[j][i] - z0f[i] * r[j] / zz for i in range(N)] for j in range(n)]
        inst['G'] = Gf
        if not rank_ok(inst):
            return None
        G = [[float(t) for t in col] for col in Gf]
        inst['G'] = G
        # h'z0 + b'y0 = -1 : h = G x0 + s0 - t z0, choose t
        base = [a + b for a, b in zip(R.Gx(G, x0, N), s0)]
        inst['b'] = Ax0
        t = (R.sdot(base, z0, d) + R.dot(Ax0, y0) + 1.0) / float(zz)
        inst['h'] = [a - t * b for a, b in zip(base, z0)]
        inst['c'] = [xpal[(j + 2) % 4] for j in range(n)]
        inst['truth'] = 'primal infeasible'
    elif kind == 'dinf':
        # ray x0 != 0 with G x0 + s0 = 0, A x0 = 0, c'x0 = -1 (rank-one corrections in exact arithmetic)
        F = lpexact.Fr
        x0f = [F(t) for t in x0]
        xx = sum(t * t for t in x0f)
        if xx == 0:
            return None
        Gf = [[F(t) for t in col] for col in G]
        s0f = [F(t) for t in s0]
        r = [sum(Gf[j][i] * x0f[j] for j in range(n)) + s0f[i] for i in range(N)]
        Gf = [[Gf[j][i] - r[i] * x0f[j] / xx for i in range(N)] for j in range(n)]
        Af = [[F(A[i][j]) - sum(F(A[i][k]) * x0f[k] for k in range(n)) * x0f[j] / xx for j in range(n)] for i in range(p)]
        inst['G'], inst['A'] = Gf, Af
        if not rank_ok(inst):
            return None
        G = [[float(t) for t in col] for col in Gf]
        A = [[float(t) for t in row] for row in Af]
        inst['G'], inst['A'] = G, A
        c0 = [xpal[(j + 1) % 4] for j in range(n)]
        t = (R.dot(c0, x0) + 1.0) / float(xx)
        inst['c'] = [a - t * b for a, b in zip(c0, x0)]
        hs = lower_sym(dom.interior(d, 0, variant + 2), d)
        inst['h'] = hs
        inst['b'] = [0.0] * p
        inst['truth'] = 'dual infeasible'
    inst['x0'], inst['s0'], inst['z0'], inst['y0'] = x0, s0, z0, y0
    return inst


def arrow_lp(n, variant=0):
    """Box -1 <= x <= 1 plus 'arrow' rows x_0 + x_i <= 1.5 and two dense equality rows: G'DG has an arrow pattern
    (CHOLMOD permutes it), the LP is strictly feasible and bounded.  Used for mixed dense/sparse presentations."""
    rows = []
    for i in range(n):
        rows.append([1.0 if j == i else 0.0 for j in range(n)])
    for i in range(n):
        rows.append([-1.0 if j == i else 0.0 for j in range(n)])
    for i in range(1, n):
        rows.append([1.0 if j in (0, i) else 0.0 for j in range(n)])
    m = len(rows)
    G = [[rows[i][j] for i in range(m)] for j in range(n)]
    h = [1.0] * (2 * n) + [1.5] * (n - 1)
    cpal = [-3.0, 1.0, -2.0, 0.5, -1.0, 2.0, -0.5, 1.5]
    c = [cpal[(j + variant) % 8] for j in range(n)]
    A = [[1.0] * n, [[1.0, -2.0, 3.0, -1.0, 0.5, 2.0, -1.5, 1.0][(j + variant) % 8] for j in range(n)]]
    xh = [0.1 * ((j % 3) - 1) for j in range(n)]
    b = [sum(A[i][j] * xh[j] for j in range(n)) for i in range(2)]
    return {'c': c, 'G': G, 'h': h, 'dims': {'l': m, 'q': [], 's': []}, 'A': A, 'b': b, 'truth': 'optimal'}


def lp_family(n, m, pal, fixed=None):
    """All (c, G, h) with entries in pal, c != 0; G as list of columns.  `fixed`: optional dict restricting
    some coordinates (used to shard the family into cases)."""
    import itertools
    for cc in itertools.product(pal, repeat=n):
        if not any(cc):
            continue
        for g in itertools.product(pal, repeat=n * m):
            for hh in itertools.product(pal, repeat=m):
                yield {'c': [float(t) for t in cc], 'G': [[float(g[j * m + i]) for i in range(m)] for j in range(n)],
                       'h': [float(t) for t in hh], 'dims': {'l': m, 'q': [], 's': []}, 'A': [], 'b': []}


# ------------------------------------------------------------------------------------------------ calling cvxopt
def build_args(inst, cfg):
    """cvxopt objects for an instance under a configuration (fresh objects every call)."""
    from cvxopt import matrix, sparse, spmatrix
    from mc import cvx
    d = inst['dims']
    n = len(inst['c'])
    N = R.cdim(d)
    p = len(inst['A'])
    Gc = [list(col) for col in inst['G']]
    h = list(inst['h'])
    if cfg.get('junk') is not None:
        Gc = [put_junk(col, d, cfg['junk']) for col in Gc]
        h = put_junk(h, d, cfg['junk'] + 1.0)
    G = cvx.from_cols(Gc, N)
    A = matrix([v for j in range(n) for v in [inst['A'][i][j] for i in range(p)]], (p, n), 'd') if p else matrix(0.0, (0, n))
    stG = cfg.get('storageG', cfg.get('storage'))
    stA = cfg.get('storageA', cfg.get('storage'))
    if stG == 'sparse':
        G = sparse(G)
    if stA == 'sparse':
        A = sparse(A) if p else spmatrix([], [], [], (0, n), 'd')
    return {'c': cvx.dmat(inst['c']), 'G': G, 'h': cvx.dmat(h), 'A': A, 'b': cvx.dmat(inst['b']),
            'dims': {'l': d['l'], 'q': list(d['q']), 's': list(d['s'])}, 'Gc': Gc, 'hl': h}


def starts(inst, cfg):
    from mc import cvx
    d = inst['dims']
    n = len(inst['c'])
    p = len(inst['A'])
    st = cfg.get('start')
    ps = ds = None
    if st in ('both', 'primal'):
        ps = {'x': cvx.dmat([0.5 * (j + 1) for j in range(n)]), 's': cvx.dmat(lower_sym(dom.interior(d, 0, 2), d))}
    if st in ('both', 'dual'):
        ds = {'y': cvx.dmat([0.25 * (i + 1) for i in range(p)]), 'z': cvx.dmat(lower_sym(dom.interior(d, 0, 3), d))}
    bad = cfg.get('badstart')
    if bad:
        # an INVALID start: the negated interior point (outside every cone) or the zero vector (on every boundary)
        tgt = ps if bad[0] == 's' else ds
        tgt[bad[0]] = tgt[bad[0]] * (-1.0 if bad[1] == 'neg' else 0.0)
    return ps, ds


def ref_kkt(inst, monitor=None, counter=None, fail_factor=None, fail_solve=None):
    """A callable KKT solver (the documented user interface) implemented with the reference algebra.
    monitor(W_ref, Wc) is called at each factorisation; counter collects call counts; fail_* inject
    ArithmeticError at the given call indices (fault enumeration)."""
    from mc import cvx
    d = inst['dims']
    n = len(inst['c'])
    p = len(inst['A'])
    N = R.cdim(d)
    Np = R.cdim_packed(d)
    G = inst['G']
    A = inst['A']
    cnt = counter if counter is not None else {}
    cnt.setdefault('factor', 0)
    cnt.setdefault('solve', 0)

    def kktsolver(W):
        k = cnt['factor']
        cnt['factor'] += 1
        if fail_factor is not None and k in fail_factor:
            raise ArithmeticError('injected failure in factor #%d' % k)
        Wr = cvx.W_to_ref(W)
        if monitor is not None:
            monitor(Wr, W)
        Gs = [R.pack(R.apply_W(col, Wr, 'T', 'I'), d) for col in G]     # n columns of length Np
        dim = n + p + Np
        K = [[0.0] * dim for _ in range(dim)]
        for i in range(p):
            for j in range(n):
                K[n + i][j] = K[j][n + i] = A[i][j]
        for j in range(n):
            for i in range(Np):
                K[n + p + i][j] = K[j][n + p + i] = Gs[j][i]
        for i in range(Np):
            K[n + p + i][n + p + i] = -1.0

        def solve(x, y, z):
            j = cnt['solve']
            cnt['solve'] += 1
            if fail_solve is not None and j in fail_solve:
                raise ArithmeticError('injected failure in solve #%d' % j)
            rhs = list(x) + list(y) + R.pack(R.apply_W(list(z), Wr, 'T', 'I'), d)
            u = R.solve_dense(K, rhs)
            if u is None:
                raise ArithmeticError('singular KKT matrix (reference solver)')
            x[:] = cvx.dmat(u[:n]) if n else x
            if p:
                y[:] = cvx.dmat(u[n:n + p])
            if N:
                z[:] = cvx.dmat(R.unpack(u[n + p:], d))
                # the documented output is W*uz as an element of S: fill the upper triangles symmetrically
                zl = lower_sym(list(z), d)
                z[:] = cvx.dmat(zl)
        return solve
    return kktsolver


def call(inst, cfg, kktsolver_obj=None):
    """Run the configured entry point.  Returns (result dict or exception, args used)."""
    from cvxopt import solvers, matrix, spmatrix, sparse
    a = build_args(inst, cfg)
    opts = {'show_progress': False}
    opts.update(cfg.get('opts') or {})
    kkt = cfg.get('kkt')
    if kkt == 'ref':
        kkt = kktsolver_obj if kktsolver_obj is not None else ref_kkt(inst)
    # how the option set reaches the solver: per call (options=..., the default) or through the global solvers.options with
    # no options= keyword at all (cfg['via'] == 'global'); cfg['prelude'] = option set of a call made immediately before
    # through the same entry point with per-call options (its result is discarded): the judged call must not inherit it
    solvers.options.clear()
    if cfg.get('prelude') is not None:
        call(inst, dict(cfg, prelude=None, via=None, opts=cfg['prelude']))
        if cfg.get('via') != 'global':
            solvers.options.clear()          # (a leak into the globals is then only visible to the 'global' route)
    okw = {'options': opts}
    if cfg.get('poison') is not None:
        solvers.options.update(cfg['poison'])    # global settings that a call with its own options= dictionary must not see
    if cfg.get('via') == 'global':
        for k_, v_ in opts.items():
            solvers.options.setdefault(k_, v_)   # what a leaking prelude left behind stays in place
        okw = {}
    ps, ds = starts(inst, cfg)
    d = a['dims']
    entry = cfg.get('entry', 'conelp')
    if cfg.get('start') == 'warm':
        # warm start from the solution of a previous conelp solve of the same instance (both start points given and
        # already optimal: the main loop stops at its first test); not available -> no start points
        from mc import cvx as _cvx
        r0, _ = call(inst, dict(cfg, start=None, entry='conelp', prelude=None, via=None, poison=None, solver=None))
        if isinstance(r0, dict) and r0.get('status') == 'optimal':
            ps = {'x': +r0['x'], 's': +r0['s']}
            ds = {'y': +r0['y'], 'z': +r0['z']}
    kw = {}
    if cfg.get('solver'):
        kw['solver'] = cfg['solver']
        if cfg['solver'] == 'glpk':
            opts['glpk'] = {'msg_lev': 'GLP_MSG_OFF'}
        if cfg['solver'] == 'dsdp':
            opts['dsdp'] = {'DSDP_Monitor': 0}
    try:
        if entry == 'conelp':
            sol = solvers.conelp(a['c'], a['G'], a['h'], d, a['A'], a['b'], primalstart=ps, dualstart=ds,
                                 kktsolver=kkt, **okw)
        elif entry == 'lp':
            sol = solvers.lp(a['c'], a['G'], a['h'], a['A'], a['b'], kktsolver=kkt, primalstart=ps, dualstart=ds,
                             **okw, **kw)
        elif entry in ('socp', 'sdp'):
            ml = d['l']
            G, h = a['G'], a['h']
            Gl, hl = G[:ml, :], h[:ml]
            blocksG, blocksh = [], []
            ind = ml
            sizes = d['q'] if entry == 'socp' else [m * m for m in d['s']]
            for k, sz in enumerate(sizes):
                blocksG.append(G[ind:ind + sz, :])
                hb = h[ind:ind + sz]
                if entry == 'sdp':
                    m = d['s'][k]
                    hb = matrix(list(hb), (m, m), 'd') if m else matrix(0.0, (0, 0))
                blocksh.append(hb)
                ind += sz
            pss = dss = None
            if ps:
                pss = {'x': ps['x'], 'sl': ps['s'][:ml]}
                dss_key = 'sq' if entry == 'socp' else 'ss'
                ind = ml
                lst = []
                for k, sz in enumerate(sizes):
                    blk = ps['s'][ind:ind + sz]
                    if entry == 'sdp':
                        blk = matrix(list(blk), (d['s'][k], d['s'][k]), 'd') if d['s'][k] else matrix(0.0, (0, 0))
                    lst.append(blk); ind += sz
                pss[dss_key] = lst
            if ds:
                dss = {'y': ds['y'], 'zl': ds['z'][:ml]}
                key = 'zq' if entry == 'socp' else 'zs'
                ind = ml
                lst = []
                for k, sz in enumerate(sizes):
                    blk = ds['z'][ind:ind + sz]
                    if entry == 'sdp':
                        blk = matrix(list(blk), (d['s'][k], d['s'][k]), 'd') if d['s'][k] else matrix(0.0, (0, 0))
                    lst.append(blk); ind += sz
                dss[key] = lst
            if entry == 'socp':
                sol = solvers.socp(a['c'], Gl, hl, blocksG, blocksh, a['A'], a['b'], kktsolver=kkt,
                                   primalstart=pss, dualstart=dss, **okw, **kw)
            else:
                sol = solvers.sdp(a['c'], Gl, hl, blocksG, blocksh, a['A'], a['b'], kktsolver=kkt,
                                  primalstart=pss, dualstart=dss, **okw, **kw)
        else:
            raise AssertionError(entry)
    except Exception as e:
        return e, a
    return sol, a


def stacked(sol, d, entry):
    """(x, s, y, z) as lists from a result of any entry point (s, z stacked); None entries stay None."""
    def L(v):
        return None if v is None else list(v)
    x, y = L(sol.get('x')), L(sol.get('y'))
    if entry in ('conelp', 'lp'):
        return x, L(sol.get('s')), y, L(sol.get('z'))
    out = []
    for pre in ('s', 'z'):
        l = sol.get(pre + 'l')
        blk = sol.get(pre + ('q' if entry == 'socp' else 's'))
        if l is None and blk is None:
            out.append(None)
            continue
        v = list(l) if l is not None else []
        for bk in (blk or []):
            v += list(bk)
        out.append(v)
    return x, out[0], y, out[1]


# ------------------------------------------------------------------------------------------------ oracles
class Oracle(object):
    def __init__(self, prop):
        self.prop = prop
        self.viol = []
        self.maxerr = {}

    def bad(self, key, msg, sub=None):
        self.viol.append({'key': '%s:%s' % (self.prop, key), 'msg': msg, 'sub': sub})

    def err(self, cls, v):
        if v == v and v > self.maxerr.get(cls, -1.0):
            self.maxerr[cls] = v

    def close(self, key, name, rep, rec, scale, sub=None, rel=RECOMP_REL, abs_=RECOMP_ABS):
        """reported value vs recomputed value."""
        if rep is None or rec is None:
            if rep is not rec and not (rep is None and rec is None):
                self.bad(key, '%s: reported %r but recomputed %r' % (name, rep, rec), sub)
                return False
            return True
        if isinstance(rep, bool) or not isinstance(rep, (int, float)):
            self.bad(key, '%s: reported value %r is not a number' % (name, rep), sub)
            return False
        diff = abs(rep - rec)
        tol = rel * max(abs(rep), abs(rec)) + abs_ * max(1.0, scale)
        self.err('recompute:' + name, diff / (max(abs(rep), abs(rec)) + max(1.0, scale) * 1e-3))
        if not diff <= tol:
            self.bad(key, '%s: reported %r but recomputed %r from the returned vectors (|diff| %.3g > tol %.3g)'
                     % (name, rep, rec, diff, tol), sub)
            return False
        return True


def quantities(inst, x, s, y, z):
    """Everything the documentation defines, recomputed from the caller's data (lower triangles only)."""
    d = inst['dims']
    G, A = inst['G'], inst['A']
    c, h, b = inst['c'], lower_sym(inst['h'], d), inst['b']
    n, p, N = len(c), len(A), R.cdim(d)
    q = {}
    q['resx0'] = max(1.0, R.nrm2(c))
    q['resy0'] = max(1.0, R.nrm2(b))
    q['resz0'] = max(1.0, R.snrm2(h, d))
    # magnitudes that bound the rounding error of any floating-point evaluation of the residuals
    q['nG'] = math.sqrt(sum(t * t for col in G for t in col))
    q['nA'] = math.sqrt(sum(t * t for row in A for t in row))
    q['nx'] = R.nrm2(x) if x is not None else 0.0
    q['ny'] = R.nrm2(y) if y else 0.0
    q['rnd_p'] = (q['nG'] + q['nA']) * q['nx']
    q['rnd_d'] = 0.0
    if x is not None:
        Gx = R.Gx(G, x, N)
        Ax = [sum(A[i][j] * x[j] for j in range(n)) for i in range(p)]
        q['cx'] = R.dot(c, x)
        q['Ax'] = Ax
        if s is not None:
            rz = [Gx[i] + s[i] - h[i] for i in range(N)]
            hz = [Gx[i] + s[i] for i in range(N)]
            q['resz'] = R.snrm2(rz, d)
            q['hresz'] = R.snrm2(hz, d)
        q['resy'] = R.nrm2([Ax[i] - b[i] for i in range(p)])
        q['hresy'] = R.nrm2(Ax)
    if z is not None:
        GTz = R.GTz(G, z, d)
        ATy = [sum(A[i][j] * (y[i] if y is not None else 0.0) for i in range(p)) for j in range(n)]
        q['resx'] = R.nrm2([GTz[j] + ATy[j] + c[j] for j in range(n)])
        q['hresx'] = R.nrm2([GTz[j] + ATy[j] for j in range(n)])
        q['hz'] = R.sdot(h, z, d)
        q['by'] = R.dot(b, y) if (y is not None and p) else 0.0
    if s is not None:
        q['ts'] = -R.max_step(s, d) if N else None
        q['ns'] = R.snrm2(s, d)
    if z is not None:
        q['tz'] = -R.max_step(z, d) if N else None
        q['nz'] = R.snrm2(z, d)
        q['rnd_d'] = q['nG'] * q['nz'] + q['nA'] * q['ny']
    if s is not None and z is not None:
        q['gap'] = R.sdot(s, z, d)
    return q


def shape_checks(O, inst, sol, entry, x, s, y, z, want):
    """types / sizes of the returned vectors; want = dict name -> bool (should be present)."""
    from cvxopt import matrix
    d = inst['dims']
    n, p, N = len(inst['c']), len(inst['A']), R.cdim(d)
    sizes = {'x': n, 's': N, 'y': p, 'z': N}
    vals = {'x': x, 's': s, 'y': y, 'z': z}
    for k in 'xsyz':
        v = vals[k]
        if want[k]:
            if v is None:
                O.bad('shape:%s-missing' % k, "status %s but '%s' is None" % (sol['status'], k)); return False
            if len(v) != sizes[k]:
                O.bad('shape:%s-length' % k, "'%s' has length %d, expected %d" % (k, len(v), sizes[k])); return False
            if any(t != t or abs(t) == float('inf') for t in v):
                O.bad('shape:%s-nonfinite' % k, "'%s' contains nan/inf" % k); return False
        else:
            if v is not None:
                O.bad('shape:%s-not-None' % k, "status %s but '%s' is not None" % (sol['status'], k)); return False
    if entry in ('conelp', 'lp'):
        for k in 'xsyz':
            o = sol.get(k)
            if o is not None and (not isinstance(o, matrix) or o.typecode != 'd' or o.size != (sizes[k], 1)):
                O.bad('shape:%s-type' % k, "'%s' is not a dense 'd' column of length %d" % (k, sizes[k])); return False
    # returned 's' blocks symmetric (the native solver symmetrises before returning)
    for name, v in (('s', s), ('z', z)):
        if v is None or want.get('external'):
            continue
        for kind, off, m in R.blocks(d):
            if kind == 's':
                for j in range(m):
                    for i in range(j + 1, m):
                        if v[off + j * m + i] != v[off + i * m + j]:
                            O.bad('shape:%s-not-symmetric' % name, "returned '%s' has a non-symmetric 's' block" % name)
                            return False
    return True


def resid_ok(val, ft, reported, bound):
    """residual criterion `val <= ft` for a residual recomputed in floating point.  When the iterates are huge the
    recomputation and the solver's own evaluation (the reported field) are both dominated by rounding (`bound` =
    RND * |data| * |iterate|) and can differ by absorption alone; the criterion is then undecidable in floating point and
    the result is accepted if the solver's own number meets the tolerance and agrees with ours within that bound."""
    if val <= ft:
        return True
    return isinstance(reported, float) and reported <= ft and abs(val - reported) <= bound


def rel_ok(gap, pcost, dcost, reltol, slack):
    """documented relative-gap criterion, evaluated with `slack` = rounding uncertainty of the recomputed costs
    (the criterion divides by a cost, which is ill-conditioned when the cost is at rounding level)."""
    if pcost < slack and -pcost + slack > 0 and gap / (-pcost + slack) <= reltol:
        return True
    if dcost > -slack and dcost + slack > 0 and gap / (dcost + slack) <= reltol:
        return True
    return False


def relgap_rule(gap, pcost, dcost):
    if pcost < 0.0:
        return gap / -pcost
    if dcost > 0.0:
        return gap / dcost
    return None


def check_optimal(O, inst, sol, entry, cfg, external=False):
    """C01 oracle.  external=True for GLPK/DSDP results (fields exist, tolerances are the back-end's)."""
    d = inst['dims']
    opts = dict(DEFAULTS); opts.update(cfg.get('opts') or {})
    x, s, y, z = stacked(sol, d, entry)
    if not shape_checks(O, inst, sol, entry, x, s, y, z, {'x': True, 's': True, 'y': True, 'z': True, 'external': external}):
        return
    if external:
        # the back-end's lower triangles define its answer (DSDP's zs come back with a zeroed upper triangle)
        s, z = lower_sym(s, d), lower_sym(z, d)
    q = quantities(inst, x, s, y, z)
    N, p = R.cdim(d), len(inst['A'])
    sub = {'x': x, 's': s, 'y': y, 'z': z}
    # tolerances of a back-end are its own business unless the instance is known to be well-posed
    judge = (not external) or cfg.get('solver') == 'glpk' or inst.get('truth') == 'optimal'
    pres = max(q['resy'] / q['resy0'], q['resz'] / q['resz0'])
    dres = q['resx'] / q['resx0']
    pcost, dcost = q['cx'], -(q['hz'] + q['by'])
    gap = q['gap']
    relgap = relgap_rule(gap, pcost, dcost)
    O.err('pres/feastol', pres / opts['feastol'])
    O.err('dres/feastol', dres / opts['feastol'])
    ft = opts['feastol'] * INFL + 1e-10
    if external:
        # DSDP stops on its own (relative) criteria: 1e-5-level residuals on well-posed instances are its normal accuracy
        ft = max(ft, 1e-6 if cfg.get('solver') == 'glpk' else 1e-4)
    # a residual evaluated in floating point is only defined up to u*(|G||x|+...): when the iterates are huge
    # (rank-deficient data) the solver's and the oracle's evaluation orders may legitimately differ by that much
    if judge and not resid_ok(pres, ft, sol.get('primal infeasibility'), RND * q['rnd_p']):
        O.bad('optimal:primal-residual', 'primal residual %.3g > feastol %.3g' % (pres, opts['feastol']), sub)
    if judge and not resid_ok(dres, ft, sol.get('dual infeasibility'), RND * q['rnd_d']):
        O.bad('optimal:dual-residual', 'dual residual %.3g > feastol %.3g' % (dres, opts['feastol']), sub)
    tiny = 1e-9 * max(1.0, q['ns'], q['nz']) if N else 0.0
    if external:
        tiny = 1e-6 * max(1.0, q['ns'], q['nz'])
    if judge and N and not q['ts'] >= -tiny:
        O.bad('optimal:s-outside-cone', 's is outside the cone (margin %.3g)' % q['ts'], sub)
    if judge and N and not q['tz'] >= -tiny:
        O.bad('optimal:z-outside-cone', 'z is outside the cone (margin %.3g)' % q['tz'], sub)
    gscale = q['ns'] * q['nz'] if N else 0.0
    at = opts['abstol'] * INFL + RECOMP_ABS * max(1.0, gscale)
    ok_abs = gap <= at
    cs_ = max(1.0, R.nrm2(inst['c']) * R.nrm2(x))
    hs_ = max(1.0, q['resz0'] * q['nz'] + R.nrm2(inst['b']) * (R.nrm2(y) if y else 0.0))
    ok_rel = rel_ok(gap, pcost, dcost, opts['reltol'] * INFL + 1e-9, 1e-12 * max(cs_, hs_))
    if external:
        # (DSDP stops on its own relative criteria: gaps of 1e-5 |cost| are its normal accuracy, see the residual floor above)
        ok_abs = gap <= max(at, (1e-5 if cfg.get('solver') == 'glpk' else 1e-4) * max(1.0, abs(pcost)))
    if judge and not (ok_abs or ok_rel):
        O.bad('optimal:gap', 'gap %.3g > abstol %.3g and relative gap %r > reltol %.3g'
              % (gap, opts['abstol'], relgap, opts['reltol']), sub)
    # fields
    cs = max(1.0, R.nrm2(inst['c']) * R.nrm2(x))
    hs = max(1.0, q['resz0'] * q['nz'] + R.nrm2(inst['b']) * (R.nrm2(y) if y else 0.0))
    O.close('field:primal objective', 'primal objective', sol.get('primal objective'), pcost, cs, sub)
    O.close('field:dual objective', 'dual objective', sol.get('dual objective'), dcost, hs, sub)
    # the solver reports lambda'lambda/tau^2; for 'q'/'s' blocks it equals s'z only up to the conditioning of the
    # scaling accumulated over the iterations: a small part of the gap itself
    grel = RECOMP_REL if not (d['q'] or d['s']) else 5e-3
    O.close('field:gap', 'gap', sol.get('gap'), gap, gscale, sub, rel=grel)
    rg = sol.get('relative gap')
    if rg is None or relgap is None:
        # the None/number decision flips when a cost is within rounding of 0: only compare when unambiguous
        amb = abs(pcost) <= 1e-9 * cs or abs(dcost) <= 1e-9 * hs
        if not amb and (rg is None) != (relgap is None):
            O.bad('field:relative gap', 'relative gap: reported %r recomputed %r' % (rg, relgap), sub)
    else:
        denom = -pcost if pcost < 0.0 else dcost
        # a denominator at rounding level makes the quotient meaningless (optimal value 0)
        if not abs(denom) <= 1e-9 * (cs if pcost < 0.0 else hs):
            O.close('field:relative gap', 'relative gap', rg, relgap, gscale / max(abs(denom), 1e-300) if denom else 1.0,
                    sub, rel=max(1e-5, grel))
    O.close('field:primal infeasibility', 'primal infeasibility', sol.get('primal infeasibility'), pres,
            max(1.0, q['ns']) * 1e-3 + 1e-4 * q['rnd_p'], sub, rel=1e-3)
    O.close('field:dual infeasibility', 'dual infeasibility', sol.get('dual infeasibility'), dres,
            max(1.0, q['nz']) * 1e-3 + 1e-4 * q['rnd_d'], sub, rel=1e-3)
    if N:
        O.close('field:primal slack', 'primal slack', sol.get('primal slack'), q['ts'], max(1.0, q['ns']), sub)
        O.close('field:dual slack', 'dual slack', sol.get('dual slack'), q['tz'], max(1.0, q['nz']), sub)
    for k in ('residual as primal infeasibility certificate', 'residual as dual infeasibility certificate'):
        if sol.get(k) is not None:
            O.bad('field:%s' % k, "status optimal but '%s' is %r, documented None" % (k, sol.get(k)), sub)
    it = sol.get('iterations')
    if not external:
        if not isinstance(it, int) or it < 0 or it > opts['maxiters']:
            O.bad('field:iterations', 'iterations = %r with maxiters = %r' % (it, opts['maxiters']), sub)
    return q


def check_pinf(O, inst, sol, entry, cfg):
    """C02 oracle, status 'primal infeasible'."""
    d = inst['dims']
    opts = dict(DEFAULTS); opts.update(cfg.get('opts') or {})
    x, s, y, z = stacked(sol, d, entry)
    if not shape_checks(O, inst, sol, entry, x, s, y, z, {'x': False, 's': False, 'y': True, 'z': True}):
        return
    q = quantities(inst, None, None, y, z)
    N = R.cdim(d)
    sub = {'y': y, 'z': z}
    tiny = 1e-9 * max(1.0, q['nz'])
    if N and not q['tz'] >= -tiny:
        O.bad('pinf:z-outside-cone', 'certificate z is outside the cone (margin %.3g)' % q['tz'], sub)
    val = q['hz'] + q['by']
    scale = max(1.0, q['resz0'] * q['nz'] + R.nrm2(inst['b']) * (R.nrm2(y) if y else 0.0))
    O.err('pinf:hz+by+1', abs(val + 1.0) / scale)
    if not abs(val + 1.0) <= 1e-9 * scale:
        O.bad('pinf:normalisation', "h'z + b'y = %.12g, documented -1" % val, sub)
    res = q['hresx'] / q['resx0']
    O.err('pinf:res/feastol', res / opts['feastol'])
    if not resid_ok(res, opts['feastol'] * INFL + 1e-10, sol.get('residual as primal infeasibility certificate'),
                    RND * q['rnd_d']):
        O.bad('pinf:certificate-residual', "||G'z + A'y||/max(1,||c||) = %.3g > feastol %.3g" % (res, opts['feastol']), sub)
    O.close('pinf:field:residual', 'residual as primal infeasibility certificate',
            sol.get('residual as primal infeasibility certificate'), res, max(1.0, q['nz']) * 1e-3 + 1e-4 * q['rnd_d'], sub,
            rel=1e-3)
    if N:
        O.close('pinf:field:dual slack', 'dual slack', sol.get('dual slack'), q['tz'], max(1.0, q['nz']), sub)
    if sol.get('dual objective') != 1.0:
        O.bad('pinf:field:dual objective', 'dual objective %r, documented 1.0' % sol.get('dual objective'), sub)
    for k in ('primal objective', 'gap', 'relative gap', 'primal infeasibility', 'dual infeasibility', 'primal slack',
              'residual as dual infeasibility certificate'):
        if sol.get(k) is not None:
            O.bad('pinf:field:%s' % k, "'%s' = %r, documented None" % (k, sol.get(k)), sub)


def check_dinf(O, inst, sol, entry, cfg):
    """C02 oracle, status 'dual infeasible'."""
    d = inst['dims']
    opts = dict(DEFAULTS); opts.update(cfg.get('opts') or {})
    x, s, y, z = stacked(sol, d, entry)
    if not shape_checks(O, inst, sol, entry, x, s, y, z, {'x': True, 's': True, 'y': False, 'z': False}):
        return
    q = quantities(inst, x, s, None, None)
    N, p = R.cdim(d), len(inst['A'])
    sub = {'x': x, 's': s}
    tiny = 1e-9 * max(1.0, q['ns'])
    if N and not q['ts'] >= -tiny:
        O.bad('dinf:s-outside-cone', 'certificate s is outside the cone (margin %.3g)' % q['ts'], sub)
    scale = max(1.0, R.nrm2(inst['c']) * R.nrm2(x))
    O.err('dinf:cx+1', abs(q['cx'] + 1.0) / scale)
    if not abs(q['cx'] + 1.0) <= 1e-9 * scale:
        O.bad('dinf:normalisation', "c'x = %.12g, documented -1" % q['cx'], sub)
    res = max(q['hresy'] / q['resy0'], q['hresz'] / q['resz0'])
    O.err('dinf:res/feastol', res / opts['feastol'])
    if not resid_ok(res, opts['feastol'] * INFL + 1e-10, sol.get('residual as dual infeasibility certificate'),
                    RND * (q['rnd_p'] + q['ns'])):
        O.bad('dinf:certificate-residual', 'max(||Gx+s||/max(1,||h||), ||Ax||/max(1,||b||)) = %.3g > feastol %.3g'
              % (res, opts['feastol']), sub)
    O.close('dinf:field:residual', 'residual as dual infeasibility certificate',
            sol.get('residual as dual infeasibility certificate'), res, max(1.0, q['ns']) * 1e-3 + 1e-4 * q['rnd_p'], sub,
            rel=1e-3)
    if N:
        O.close('dinf:field:primal slack', 'primal slack', sol.get('primal slack'), q['ts'], max(1.0, q['ns']), sub)
    if sol.get('primal objective') != -1.0:
        O.bad('dinf:field:primal objective', 'primal objective %r, documented -1.0' % sol.get('primal objective'), sub)
    for k in ('dual objective', 'gap', 'relative gap', 'primal infeasibility', 'dual infeasibility', 'dual slack',
              'residual as primal infeasibility certificate'):
        if sol.get(k) is not None:
            O.bad('dinf:field:%s' % k, "'%s' = %r, documented None" % (k, sol.get(k)), sub)


def check_unknown(O, inst, sol, entry, cfg, strict_interior=True):
    """'unknown': last iterates with s > 0, z > 0 and self-consistent fields."""
    d = inst['dims']
    opts = dict(DEFAULTS); opts.update(cfg.get('opts') or {})
    x, s, y, z = stacked(sol, d, entry)
    if not shape_checks(O, inst, sol, entry, x, s, y, z, {'x': True, 's': True, 'y': True, 'z': True}):
        return
    q = quantities(inst, x, s, y, z)
    N = R.cdim(d)
    sub = {'x': x, 's': s, 'y': y, 'z': z}
    if N and strict_interior:
        # (a margin is only computed to ~1e-16 |s|: converged iterates sit within that of the boundary)
        if not q['ts'] > -1e-12 * max(1.0, q['ns']):
            O.bad('unknown:s-not-interior', "status unknown but s is not strictly inside the cone (margin %.3g)" % q['ts'], sub)
        if not q['tz'] > -1e-12 * max(1.0, q['nz']):
            O.bad('unknown:z-not-interior', "status unknown but z is not strictly inside the cone (margin %.3g)" % q['tz'], sub)
    pres = max(q['resy'] / q['resy0'], q['resz'] / q['resz0'])
    dres = q['resx'] / q['resx0']
    pcost, dcost = q['cx'], -(q['hz'] + q['by'])
    gscale = q['ns'] * q['nz'] if N else 0.0
    cs = max(1.0, R.nrm2(inst['c']) * R.nrm2(x))
    hs = max(1.0, q['resz0'] * q['nz'] + R.nrm2(inst['b']) * (R.nrm2(y) if y else 0.0))
    O.close('unknown:field:primal objective', 'primal objective', sol.get('primal objective'), pcost, cs, sub)
    O.close('unknown:field:dual objective', 'dual objective', sol.get('dual objective'), dcost, hs, sub)
    O.close('unknown:field:gap', 'gap', sol.get('gap'), q['gap'], gscale, sub,
            rel=RECOMP_REL if not (d['q'] or d['s']) else 5e-3)
    O.close('unknown:field:primal infeasibility', 'primal infeasibility', sol.get('primal infeasibility'), pres,
            max(1.0, q['ns'], R.nrm2(x)) * 1e-3 + 1e-4 * q['rnd_p'], sub, rel=1e-3)
    O.close('unknown:field:dual infeasibility', 'dual infeasibility', sol.get('dual infeasibility'), dres,
            max(1.0, q['nz']) * 1e-3 + 1e-4 * q['rnd_d'], sub, rel=1e-3)
    if N:
        O.close('unknown:field:primal slack', 'primal slack', sol.get('primal slack'), q['ts'], max(1.0, q['ns']), sub)
        O.close('unknown:field:dual slack', 'dual slack', sol.get('dual slack'), q['tz'], max(1.0, q['nz']), sub)
    it = sol.get('iterations')
    if not isinstance(it, int) or it < 0 or it > opts['maxiters']:
        O.bad('unknown:field:iterations', 'iterations = %r with maxiters = %r' % (it, opts['maxiters']), sub)
    return q


def bad_start_outcome(O, res, what):
    """a start point outside (or on the boundary of) the cone is an argument error: it has to be rejected with a
    ValueError of the solver's own, not run into the scaling computation (sqrt / division of non-positive numbers)
    or be iterated on.  Returns True when the outcome was an exception (nothing else to judge)."""
    if isinstance(res, Exception):
        if not isinstance(res, ValueError) or 'math domain' in str(res):
            O.bad('invalid-start:not-rejected:%s' % what, 'start with %s outside the open cone was not rejected as an argument '
                  'error but ended in %s: %s' % (what, type(res).__name__, res))
        return True
    return False


def check_result(O, inst, res, entry, cfg, allow_exceptions=(ValueError,)):
    """Dispatch on status; returns the outcome label."""
    if isinstance(res, Exception):
        if isinstance(res, allow_exceptions):
            return 'exc:' + type(res).__name__
        import traceback
        O.bad('exception:%s' % type(res).__name__, 'undocumented exception %s: %s' % (type(res).__name__, res))
        return 'exc:' + type(res).__name__
    st = res.get('status')
    ext = bool(cfg.get('solver'))
    if st == 'optimal':
        check_optimal(O, inst, res, entry, cfg, external=ext)
    elif st == 'primal infeasible':
        if not ext:
            check_pinf(O, inst, res, entry, cfg)
    elif st == 'dual infeasible':
        if not ext:
            check_dinf(O, inst, res, entry, cfg)
    elif st == 'unknown':
        if not ext:
            check_unknown(O, inst, res, entry, cfg)
    else:
        O.bad('status:undocumented', 'undocumented status %r' % (st,))
    return str(st)
